/-!
# Open addressing with linear probing and backward-shift deletion — executable core

Shared by the `CaoHashMap` model (`HashMap.lean`, home = fib(hash) % cap) and the `HandleTable`
model (`HandleTable.lean`, home = fib(handle) & (cap-1)). Slots are a *functional view*
`Nat → Option (K × V)` with point update `upd`; positions move cyclically through
`probe cap h n = (h + n) % cap`. All loops take fuel bounded by the capacity; `none` from
`find` means "the Rust loop would not terminate" and is mapped to `panic` by the callers.

The theory (invariant, find/insert/remove/rehash correctness) is in
`CaoProofs/Lemmas/OpenAddr.lean`.
-/
namespace Cao.OA

abbrev Slots (K V : Type) := Nat → Option (K × V)

variable {K V : Type}

def empty : Slots K V := fun _ => none

def upd (s : Slots K V) (i : Nat) (x : Option (K × V)) : Slots K V :=
  fun j => if j = i then x else s j

def dist (cap a b : Nat) : Nat := (b + cap - a) % cap
def probe (cap h n : Nat) : Nat := (h + n) % cap

variable [DecidableEq K]

/-- scan probe positions n, n+1, … with `fuel` steps: the first slot that is empty or holds `k` -/
def findFrom (cap : Nat) (s : Slots K V) (h : Nat) (k : K) : Nat → Nat → Option Nat
  | _, 0 => none
  | n, fuel+1 =>
    let i := probe cap h n
    match s i with
    | none => some i
    | some (k', _) => if k' = k then some i else findFrom cap s h k (n+1) fuel

/-- `find_ind`: `home k` must already be reduced below `cap` -/
def find (cap : Nat) (home : K → Nat) (s : Slots K V) (k : K) : Option Nat :=
  findFrom cap s (home k) k 0 cap

/-- backward-shift after a removal: `hole` is the vacated slot, `j` the scan position.
    An element at `j' = j+1` moves into the hole iff the hole lies on its probe path
    (`dist hole j' ≤ dist (home k) j'`). -/
def shift (cap : Nat) (home : K → Nat) : Slots K V → Nat → Nat → Nat → Slots K V
  | s, _, _, 0 => s
  | s, hole, j, fuel+1 =>
    let j' := probe cap j 1
    match s j' with
    | none => s
    | some (kj, vj) =>
      if dist cap hole j' ≤ dist cap (home kj) j' then
        shift cap home (upd (upd s hole (some (kj, vj))) j' none) j' j' fuel
      else shift cap home s hole j' fuel

/-- lookup through `find` -/
def get (cap : Nat) (home : K → Nat) (s : Slots K V) (k : K) : Option V :=
  match find cap home s k with
  | some i => (s i).map (·.2)
  | none => none

/-- write `k ↦ v` at the slot `find` returns (no growth). Returns the new slots, whether the
    key was new, and the replaced entry. `none` = `find` ran out of fuel. -/
def put (cap : Nat) (home : K → Nat) (s : Slots K V) (k : K) (v : V) :
    Option (Slots K V × Option (K × V)) :=
  match find cap home s k with
  | some i => some (upd s i (some (k, v)), s i)
  | none => none

/-- remove `k` (if present) and close the gap -/
def erase (cap : Nat) (home : K → Nat) (s : Slots K V) (k : K) :
    Option (Slots K V × Option (K × V)) :=
  match find cap home s k with
  | some i =>
    match s i with
    | some kv => some (shift cap home (upd s i none) i i cap, some kv)
    | none => some (s, none)
  | none => none

/-- occupied entries in slot order (the iteration order of both tables) -/
def toList (cap : Nat) (s : Slots K V) : List (K × V) :=
  (List.range cap).filterMap s

/-- re-insert every entry of `(oldCap, old)` in slot order into an empty table of capacity
    `newCap` (no growth checks — the repaired `adjust_capacity`). -/
def rehash (oldCap : Nat) (old : Slots K V) (newCap : Nat) (home : K → Nat) : Option (Slots K V) :=
  (toList oldCap old).foldl
    (fun acc kv => match acc with
      | none => none
      | some s => (put newCap home s kv.1 kv.2).map (·.1))
    (some empty)

/-- freeze a slot function into an array-backed one (extensionally equal below `cap`);
    used by the driver only to keep closure chains short. -/
def compact (cap : Nat) (s : Slots K V) : Slots K V :=
  let arr := (Array.range cap).map s
  fun i => if h : i < arr.size then arr[i] else none

end Cao.OA
