/-!
# Hash functions, exactly as the crate computes them

* `fnv1a`: `CaoHasher::write` / `handle_table::hash_bytes` (32-bit FNV-1a kept in a u64).
* `hashU64`: `handle_table::hash_u64` (used by `Handle::from_u32/from_u64/from_i64`).
* `fibHome`: the Fibonacci-hashing start slot of both tables.
-/
namespace Cao.Hash

def fnvOffset : UInt64 := 2166136261
def fnvPrime : UInt64 := 16777619
def mask32 : UInt64 := 0xFFFFFFFF

/-- one `write(bytes)` call starting from state `h` -/
def fnvWrite (h : UInt64) (bytes : List UInt8) : UInt64 :=
  (bytes.foldl (fun (hash : UInt64) b => (((hash ^^^ b.toUInt64) &&& mask32) * fnvPrime)) h) &&& mask32

def fnv1a (bytes : List UInt8) : UInt64 := fnvWrite fnvOffset bytes

def le64 (x : UInt64) : List UInt8 :=
  (List.range 8).map (fun i => (x >>> (8 * i).toUInt64).toUInt8)

def le32 (x : UInt32) : List UInt8 :=
  (List.range 4).map (fun i => (x >>> (8 * i).toUInt32).toUInt8)

/-- `hash(&key)` of `hash_map.rs` after the zero-remap fix: 0 is reserved for empty slots -/
def nonZero (h : UInt64) : UInt64 := if h = 0 then 1 else h

/-- `std::hash::Hash for i64` → `write(&i.to_ne_bytes())` -/
def hashI64 (i : Int64) : UInt64 := nonZero (fnv1a (le64 i.toUInt64))

/-- `Hash for str` → `write(bytes); write_u8(0xff)` -/
def strStream (h : UInt64) (bytes : List UInt8) : UInt64 := fnvWrite (fnvWrite h bytes) [0xFF]

def hashStr (bytes : List UInt8) : UInt64 := nonZero (strStream fnvOffset bytes)

/-- `hash_u64(key, mask)` -/
def hashU64 (key mask : UInt64) : UInt32 :=
  let key := key + mask * (if key = 0 then 1 else 0)
  let key := (((key >>> 16) ^^^ key) * 0x45d0f3b) &&& mask
  let key := (((key >>> 16) ^^^ key) * 0x45d0f3b) &&& mask
  let key := ((key >>> 16) ^^^ key) &&& mask
  ((key >>> 32) ^^^ key).toUInt32

def handleFromU32 (k : UInt32) : UInt32 := hashU64 k.toUInt64 0xFFFFFFFF
def handleFromU64 (k : UInt64) : UInt32 := hashU64 k 0xFFFFFFFFFFFFFFFF
/-- `Handle::from_bytes` / `from_str` -/
def handleFromBytes (bytes : List UInt8) : UInt32 := (fnv1a bytes).toUInt32

def fibMul : Nat := 2654435769

/-- `CaoHashMap::find_ind` start: `(needle.wrapping_mul(2654435769) as usize) % len` (u64 product) -/
def fibHome64 (hash : UInt64) (cap : Nat) : Nat :=
  ((hash.toNat * fibMul) % 2^64) % cap

/-- `HandleTable::find_ind` start: `(needle.0.wrapping_mul(2654435769) as usize) & (len-1)`
    (u32 product!). For power-of-two `cap` the mask is `% cap`. -/
def fibHome32 (handle : UInt32) (cap : Nat) : Nat :=
  ((handle.toNat * fibMul) % 2^32) % cap

end Cao.Hash
