//! splitmix64 — every random choice of a case derives from one state.
#[derive(Clone)]
pub struct Rng(pub u64);

impl Rng {
    pub fn new(seed: u64) -> Self {
        Rng(seed)
    }
    pub fn next(&mut self) -> u64 {
        self.0 = self.0.wrapping_add(0x9E3779B97F4A7C15);
        let mut z = self.0;
        z = (z ^ (z >> 30)).wrapping_mul(0xBF58476D1CE4E5B9);
        z = (z ^ (z >> 27)).wrapping_mul(0x94D049BB133111EB);
        z ^ (z >> 31)
    }
    /// uniform in 0..n (n > 0)
    pub fn below(&mut self, n: u64) -> u64 {
        self.next() % n
    }
    pub fn range(&mut self, lo: i64, hi: i64) -> i64 {
        lo + (self.below((hi - lo + 1) as u64) as i64)
    }
    pub fn chance(&mut self, num: u64, den: u64) -> bool {
        self.below(den) < num
    }
    pub fn pick<'a, T>(&mut self, xs: &'a [T]) -> &'a T {
        &xs[self.below(xs.len() as u64) as usize]
    }
    /// weighted choice: returns index
    pub fn weighted(&mut self, ws: &[u32]) -> usize {
        let total: u64 = ws.iter().map(|w| *w as u64).sum();
        let mut x = self.below(total);
        for (i, w) in ws.iter().enumerate() {
            if x < *w as u64 {
                return i;
            }
            x -= *w as u64;
        }
        ws.len() - 1
    }
    pub fn fork(&mut self) -> Rng {
        Rng(self.next())
    }
}
