mod engines;
mod framework;
mod rng;

use framework::*;

fn usage() -> ! {
    eprintln!("usage: caoharness run <engine> [--seed N] [--cases N] [--tier quick|thorough] [--driver PATH] [--replay-dir DIR] [--label L] [--out FILE]\n       caoharness replay <engine> <file> [--driver PATH]\n       caoharness worker <engine>\n       caoharness dump <what>");
    std::process::exit(2)
}

fn flag(args: &[String], name: &str) -> Option<String> {
    args.iter().position(|a| a == name).and_then(|i| args.get(i + 1).cloned())
}

fn main() {
    let args: Vec<String> = std::env::args().skip(1).collect();
    if args.len() < 2 {
        usage();
    }
    match args[0].as_str() {
        "worker" => {
            let e = engines::by_name(&args[1]).unwrap_or_else(|| usage());
            worker_main(e.as_ref());
        }
        "run" => {
            let e = engines::by_name(&args[1]).unwrap_or_else(|| usage());
            let tier = match flag(&args, "--tier").as_deref() {
                Some("thorough") => Tier::Thorough,
                _ => Tier::Quick,
            };
            let cfg = RunConfig {
                seed: flag(&args, "--seed").and_then(|s| s.parse().ok()).unwrap_or(1),
                tier,
                cases: flag(&args, "--cases").and_then(|s| s.parse().ok()).unwrap_or(200),
                driver: flag(&args, "--driver"),
                replay_dir: flag(&args, "--replay-dir").unwrap_or("/verif/replays".into()),
                label: flag(&args, "--label").unwrap_or("run".into()),
            };
            let s = run_engine(e.as_ref(), &cfg);
            let js = serde_json::to_string_pretty(&summary_json(&s)).unwrap();
            match flag(&args, "--out") {
                Some(p) => std::fs::write(p, js).unwrap(),
                None => println!("{js}"),
            }
        }
        "gen" => {
            let e = engines::by_name(&args[1]).unwrap_or_else(|| usage());
            let seed: u64 = flag(&args, "--seed").and_then(|s| s.parse().ok()).unwrap_or(1);
            let idx: usize = flag(&args, "--idx").and_then(|s| s.parse().ok()).unwrap_or(0);
            let mut rng = rng::Rng::new(case_seed(seed, e.name(), idx));
            for l in e.gen(&mut rng, Tier::Quick, idx) {
                println!("{l}");
            }
        }
        "replay" => {
            let e = engines::by_name(&args[1]).unwrap_or_else(|| usage());
            let ops = read_replay(&args[2]);
            let io = run_impl_isolated(e.as_ref(), &[ops.clone()]).pop().unwrap();
            let sp = e.run_spec(&ops, &io);
            let mo = flag(&args, "--driver").map(|d| run_model(&d, &[ops.clone()]).pop().unwrap());
            let mut bad = false;
            for (i, op) in ops.iter().enumerate() {
                let a = io.get(i).cloned().unwrap_or_default();
                let s = sp.as_ref().and_then(|s| s.get(i).cloned()).unwrap_or("-".into());
                let m = mo.as_ref().and_then(|s| s.get(i).cloned()).unwrap_or("-".into());
                let flag_s = if s != "-" && s != "?" && s != a { bad = true; " <-- IMPL!=SPEC" } else { "" };
                let flag_m = if m != "-" && e.model_compared(op) && m != a { bad = true; " <-- IMPL!=MODEL" } else { "" };
                println!("{op}\n    impl={a} spec={s} model={m}{flag_s}{flag_m}");
            }
            std::process::exit(if bad { 1 } else { 0 });
        }
        _ => usage(),
    }
}
