//! Engines `val` (Value equality / hash / ordering / truthiness / arithmetic on real heap values)
//! and `tbl` (CaoLangTable through the host API inside a real VM).
use crate::framework::{Engine, Tier};
use crate::rng::Rng;
use cao_lang::prelude::*;
use cao_lang::vm::runtime::cao_lang_object::CaoLangObjectBody;

#[derive(Clone, Debug, PartialEq)]
pub enum OV {
    Nil,
    Int(i64),
    Real(u64),
    Str(Vec<u8>),
    Table(Vec<(OV, OV)>),
    Fn(u32, u32),
    Native(u32),
    Closure(u32, u32),
}

pub fn canon_bits(b: u64) -> u64 {
    if f64::from_bits(b).is_nan() {
        0x7ff8000000000000
    } else {
        b
    }
}

impl OV {
    pub fn tok(&self) -> String {
        match self {
            OV::Nil => "n".into(),
            OV::Int(i) => format!("i{i}"),
            OV::Real(b) => format!("r{:016x}", b),
            OV::Str(s) => format!("s{}", s.iter().map(|b| format!("{b:02x}")).collect::<String>()),
            OV::Table(es) => format!("t[{}]", es.iter().map(|(k, v)| format!("{}:{}", k.tok(), v.tok())).collect::<Vec<_>>().join(",")),
            OV::Fn(h, a) => format!("f{h}/{a}"),
            OV::Native(h) => format!("N{h}"),
            OV::Closure(h, a) => format!("c{h}/{a}"),
        }
    }

    pub fn parse(s: &str) -> Option<OV> {
        let cs: Vec<char> = s.chars().collect();
        let mut p = 0;
        let v = Self::parse_at(&cs, &mut p)?;
        if p == cs.len() {
            Some(v)
        } else {
            None
        }
    }

    fn take(cs: &[char], p: &mut usize, f: impl Fn(char) -> bool) -> String {
        let mut s = String::new();
        while *p < cs.len() && f(cs[*p]) {
            s.push(cs[*p]);
            *p += 1;
        }
        s
    }

    fn parse_at(cs: &[char], p: &mut usize) -> Option<OV> {
        let c = *cs.get(*p)?;
        *p += 1;
        match c {
            'n' => Some(OV::Nil),
            'i' => Self::take(cs, p, |c| c.is_ascii_digit() || c == '-').parse().ok().map(OV::Int),
            'r' => u64::from_str_radix(&Self::take(cs, p, |c| c.is_ascii_hexdigit()), 16).ok().map(OV::Real),
            's' => {
                let h = Self::take(cs, p, |c| c.is_ascii_hexdigit());
                let b: Option<Vec<u8>> = (0..h.len() / 2).map(|i| u8::from_str_radix(&h[2 * i..2 * i + 2], 16).ok()).collect();
                b.map(OV::Str)
            }
            'f' | 'c' => {
                let h: u32 = Self::take(cs, p, |c| c.is_ascii_digit()).parse().ok()?;
                if cs.get(*p) != Some(&'/') {
                    return None;
                }
                *p += 1;
                let a: u32 = Self::take(cs, p, |c| c.is_ascii_digit()).parse().ok()?;
                Some(if c == 'f' { OV::Fn(h, a) } else { OV::Closure(h, a) })
            }
            'N' => Self::take(cs, p, |c| c.is_ascii_digit()).parse().ok().map(OV::Native),
            't' => {
                if cs.get(*p) != Some(&'[') {
                    return None;
                }
                *p += 1;
                let mut es = vec![];
                loop {
                    match cs.get(*p)? {
                        ']' => {
                            *p += 1;
                            return Some(OV::Table(es));
                        }
                        ',' => {
                            *p += 1;
                        }
                        _ => {
                            let k = Self::parse_at(cs, p)?;
                            if cs.get(*p) != Some(&':') {
                                return None;
                            }
                            *p += 1;
                            let v = Self::parse_at(cs, p)?;
                            es.push((k, v));
                        }
                    }
                }
            }
            _ => None,
        }
    }

    /// no NaN and no function values anywhere: the domain on which `==` is an equivalence
    pub fn in_eq_domain(&self) -> bool {
        match self {
            OV::Real(b) => !f64::from_bits(*b).is_nan(),
            OV::Table(es) => es.iter().all(|(k, v)| k.in_eq_domain() && v.in_eq_domain()),
            OV::Fn(..) | OV::Native(_) | OV::Closure(..) => false,
            _ => true,
        }
    }
    pub fn has_zero(&self) -> bool {
        match self {
            OV::Real(b) => f64::from_bits(*b) == 0.0,
            OV::Table(es) => es.iter().any(|(k, v)| k.has_zero() || v.has_zero()),
            _ => false,
        }
    }
    /// usable as a table key under the property (nil, ints, finite non-zero reals, strings)
    pub fn is_plain_key(&self) -> bool {
        match self {
            OV::Nil | OV::Int(_) | OV::Str(_) => true,
            OV::Real(b) => {
                let f = f64::from_bits(*b);
                f.is_finite() && f != 0.0
            }
            _ => false,
        }
    }
}

pub fn mk_handle(x: u32) -> Handle {
    unsafe { std::mem::transmute::<u32, Handle>(x) }
}

/// Build a real heap value.
pub fn build<A>(vm: &mut Vm<A>, v: &OV) -> Result<Value, ExecutionErrorPayload> {
    Ok(match v {
        OV::Nil => Value::Nil,
        OV::Int(i) => Value::Integer(*i),
        OV::Real(b) => Value::Real(f64::from_bits(*b)),
        OV::Str(s) => Value::Object(vm.init_string(std::str::from_utf8(s).unwrap())?.into_inner()),
        OV::Table(es) => {
            let t = vm.init_table()?.into_inner();
            for (k, v) in es {
                let k = build(vm, k)?;
                let v = build(vm, v)?;
                unsafe { (*t.as_ptr()).as_table_mut().unwrap().insert(k, v)? };
            }
            Value::Object(t)
        }
        OV::Fn(h, a) => Value::Object(vm.init_function(mk_handle(*h), *a)?.into_inner()),
        OV::Native(h) => Value::Object(vm.init_native_function(mk_handle(*h))?.into_inner()),
        OV::Closure(h, a) => Value::Object(vm.init_closure(mk_handle(*h), *a)?.into_inner()),
    })
}

/// Build a value whose tables went through a different history: every table first receives
/// `extra` additional integer keys (forcing its hash part to grow) which are removed again.
pub fn build_with_history<A>(vm: &mut Vm<A>, v: &OV, extra: i64) -> Result<Value, ExecutionErrorPayload> {
    Ok(match v {
        OV::Table(es) => {
            let t = vm.init_table()?.into_inner();
            // keep it reachable while it is filled
            vm.stack_push(Value::Object(t))?;
            for i in 0..extra {
                unsafe { (*t.as_ptr()).as_table_mut().unwrap().insert(Value::Integer(1_000_000 + i), Value::Integer(i))? };
            }
            for (k, v) in es {
                let k = build_with_history(vm, k, extra)?;
                let v = build_with_history(vm, v, extra)?;
                unsafe { (*t.as_ptr()).as_table_mut().unwrap().insert(k, v)? };
            }
            for i in 0..extra {
                unsafe { (*t.as_ptr()).as_table_mut().unwrap().remove(Value::Integer(1_000_000 + i))? };
            }
            if extra > 0 {
                // a function value is never equal to itself: as a key it is inserted, listed, and popped
                // from the key list again, but the hash part cannot find it - the table must count,
                // compare and hash by its rows, not by what its hash part stores
                let ghost = Value::Object(vm.init_function(mk_handle(0x6767), 0)?.into_inner());
                unsafe {
                    (*t.as_ptr()).as_table_mut().unwrap().insert(ghost, Value::Integer(1))?;
                    (*t.as_ptr()).as_table_mut().unwrap().pop()?;
                }
            }
            vm.stack_pop();
            Value::Object(t)
        }
        other => build(vm, other)?,
    })
}

/// Deep conversion of a real value (depth-limited: cyclic values print as `<deep>`).
pub fn read_back(v: Value, depth: usize) -> OV {
    if depth == 0 {
        return OV::Str(b"<deep>".to_vec());
    }
    match v {
        Value::Nil => OV::Nil,
        Value::Integer(i) => OV::Int(i),
        Value::Real(r) => OV::Real(canon_bits(r.to_bits())),
        Value::Object(o) => unsafe {
            match &o.as_ref().body {
                CaoLangObjectBody::Table(t) => OV::Table(t.iter().map(|(k, v)| (read_back(*k, depth - 1), read_back(*v, depth - 1))).collect()),
                CaoLangObjectBody::String(s) => OV::Str(s.as_str().as_bytes().to_vec()),
                CaoLangObjectBody::Function(f) => OV::Fn(f.handle.value(), f.arity),
                CaoLangObjectBody::NativeFunction(f) => OV::Native(f.handle.value()),
                CaoLangObjectBody::Closure(c) => OV::Closure(c.function.handle.value(), c.function.arity),
                CaoLangObjectBody::Upvalue(_) => OV::Str(b"<upvalue>".to_vec()),
            }
        },
    }
}

fn args(op: &str) -> Vec<&str> {
    op.split(' ').skip(1).collect()
}

pub fn gen_scalar(rng: &mut Rng) -> OV {
    const INTS: [i64; 14] = [0, 1, -1, 2, 3, 42, 7, i64::MAX, i64::MIN, 9007199254740992, 9007199254740993, -9007199254740993, 3291555020, 255];
    const REALS: [f64; 16] = [0.0, -0.0, 1.0, 1.5, -2.5, 3.0, 2.0, 9007199254740992.0, 9007199254740994.0, f64::INFINITY, f64::NEG_INFINITY, f64::NAN, 5e-324, 1e300, 9223372036854775807.0, 42.0];
    const STRS: [&str; 7] = ["", "a", "b", "ab", "abc", "héllo", "key"];
    match rng.below(10) {
        0 => OV::Nil,
        1..=4 => OV::Int(*rng.pick(&INTS)),
        5..=7 => OV::Real(rng.pick(&REALS).to_bits()),
        _ => OV::Str(rng.pick(&STRS).as_bytes().to_vec()),
    }
}

pub fn gen_plain_key(rng: &mut Rng) -> OV {
    loop {
        let k = gen_scalar(rng);
        if k.is_plain_key() {
            return k;
        }
    }
}

pub fn gen_value(rng: &mut Rng, depth: usize) -> OV {
    match rng.below(12) {
        0..=7 => gen_scalar(rng),
        8 => match rng.below(3) {
            0 => OV::Fn(rng.range(1, 3) as u32, rng.range(0, 2) as u32),
            1 => OV::Native(rng.range(1, 3) as u32),
            _ => OV::Closure(rng.range(1, 3) as u32, rng.range(0, 2) as u32),
        },
        _ => {
            if depth == 0 {
                return gen_scalar(rng);
            }
            // tables with distinct plain keys, sometimes the same entries in another order
            let n = rng.range(0, 3) as usize;
            let mut es: Vec<(OV, OV)> = vec![];
            while es.len() < n {
                let k = gen_plain_key(rng);
                if es.iter().all(|(k2, _)| k2 != &k) {
                    es.push((k, gen_value(rng, depth - 1)));
                }
            }
            OV::Table(es)
        }
    }
}

pub struct ValEngine;

impl Engine for ValEngine {
    fn name(&self) -> &'static str {
        "val"
    }

    fn gen(&self, rng: &mut Rng, tier: Tier, _idx: usize) -> Vec<String> {
        let n = if tier == Tier::Quick { 40 } else { 120 };
        let pool: Vec<OV> = (0..8).map(|_| gen_value(rng, 2)).collect();
        let mut pool = pool;
        // a permuted copy of a table and an equal-content distinct copy to make `==` true often
        if let Some(OV::Table(es)) = pool.iter().find(|v| matches!(v, OV::Table(e) if e.len() >= 2)).cloned() {
            let mut r = es.clone();
            r.reverse();
            pool.push(OV::Table(r));
            pool.push(OV::Table(es));
        }
        let dup = pool[rng.below(pool.len() as u64) as usize].clone();
        pool.push(dup);
        let mut ops = vec![];
        for _ in 0..n {
            let a = rng.pick(&pool).tok();
            let b = rng.pick(&pool).tok();
            let c = rng.pick(&pool).tok();
            let op = match rng.weighted(&[10, 8, 10, 4, 3, 3, 3, 3, 3, 5, 5, 5, 5, 5, 5, 3, 3, 4]) {
                0 => format!("val eq {a} {b}"),
                1 => format!("val hash {a}"),
                2 => format!("val cmp {a} {b}"),
                3 => format!("val bool {a}"),
                4 => format!("val add {a} {b}"),
                5 => format!("val sub {a} {b}"),
                6 => format!("val mul {a} {b}"),
                7 => format!("val div {a} {b}"),
                8 => format!("val echo {a}"),
                9 => format!("val law_refl {a}"),
                10 => format!("val law_sym {a} {b}"),
                11 => format!("val law_trans {a} {b} {c}"),
                12 => format!("val law_hash {a} {b}"),
                13 => format!("val law_asym {a} {b}"),
                14 => format!("val law_eqlt {a} {b}"),
                15 => format!("val lt {a} {b}"),
                16 => format!("val le {a} {b}"),
                _ => format!("val law_hash_hist {a}"),
            };
            ops.push(op);
        }
        ops
    }

    fn corpus(&self) -> Vec<Vec<String>> {
        let c = |s: &[&str]| s.iter().map(|x| x.to_string()).collect::<Vec<_>>();
        vec![
            c(&["val add i9223372036854775807 i1", "val sub i-9223372036854775808 i1", "val mul i9223372036854775807 i2"]),
            c(&["val hash i3291555020", "val eq i1 r3ff0000000000000", "val cmp i1 r3ff0000000000000", "val cmp n n", "val cmp n i0", "val cmp s6162 i2", "val cmp s61 s62", "val cmp s61 s61"]),
            c(&["val eq f1/0 f1/0", "val law_refl f1/0", "val cmp f1/0 f1/0", "val bool f1/0", "val bool s", "val bool t[]", "val bool r7ff8000000000000"]),
            // integer division at the overflow corner and by zero (results are reals, never a panic)
            c(&["val div i-9223372036854775808 i-1", "val div i-9223372036854775808 i1", "val div i9223372036854775807 i-1", "val div i1 i0", "val div i0 i0", "val div i-9223372036854775808 i2", "val mul i-9223372036854775808 i-1", "val sub i-9223372036854775808 i1", "val add i9223372036854775807 i1"]),
            c(&["val cmp i9007199254740993 r4340000000000000", "val cmp r8000000000000000 r0000000000000000", "val eq r8000000000000000 r0000000000000000", "val hash r8000000000000000", "val hash r0000000000000000"]),
        ]
    }

    fn run_impl(&self, ops: &[String], out: &mut Vec<String>) {
        // the host side holds raw values across operations (no guards): give the VM a limit that
        // no case reaches, so that no collection runs while the harness builds and compares values
        let mut vm = Vm::new(()).unwrap();
        vm.runtime_data = cao_lang::vm::runtime::RuntimeData::new(1 << 30, 1024, 256).unwrap();
        for op in ops {
            let a = args(op);
            let vals: Vec<Value> = a[1..].iter().map(|t| build(&mut vm, &OV::parse(t).unwrap()).unwrap()).collect();
            let line = match (a[0], vals.as_slice()) {
                ("eq", [x, y]) => (x == y).to_string(),
                ("hash", [x]) => cao_lang::verif::hash_value(x).to_string(),
                ("cmp", [x, y]) => match x.partial_cmp(y) {
                    Some(std::cmp::Ordering::Less) => "lt".into(),
                    Some(std::cmp::Ordering::Equal) => "eq".into(),
                    Some(std::cmp::Ordering::Greater) => "gt".into(),
                    None => "none".into(),
                },
                ("lt", [x, y]) => (x < y).to_string(),
                ("le", [x, y]) => (x <= y).to_string(),
                ("bool", [x]) => x.as_bool().to_string(),
                ("add", [x, y]) => read_back(*x + *y, 8).tok(),
                ("sub", [x, y]) => read_back(*x - *y, 8).tok(),
                ("mul", [x, y]) => read_back(*x * *y, 8).tok(),
                ("div", [x, y]) => read_back(*x / *y, 8).tok(),
                ("echo", [x]) => read_back(*x, 8).tok(),
                ("law_hash_hist", [x]) => {
                    // the same content built through another history (grown and shrunk tables)
                    let ov = OV::parse(a[1]).unwrap();
                    let y = build_with_history(&mut vm, &ov, 20).unwrap();
                    (!(*x == y) || cao_lang::verif::hash_value(x) == cao_lang::verif::hash_value(&y)).to_string() + if *x == y { "" } else { " (not equal)" }
                }
                ("law_refl", [x]) => (x == x).to_string(),
                ("law_sym", [x, y]) => ((x == y) == (y == x)).to_string(),
                ("law_trans", [x, y, z]) => (!(x == y && y == z) || x == z).to_string(),
                ("law_lt_trans", [x, y, z]) => (!(x < y && y < z) || x < z).to_string(),
                ("law_hash", [x, y]) => (!(x == y) || cao_lang::verif::hash_value(x) == cao_lang::verif::hash_value(y)).to_string(),
                ("law_asym", [x, y]) => (!(x < y && y < x)).to_string(),
                ("law_eqlt", [x, y]) => (!(x == y) || (!(x < y) && !(y < x))).to_string(),
                _ => "bad-op".into(),
            };
            out.push(line);
            if !cao_lang::verif::value_stack(&vm.runtime_data).is_empty() {
                vm.clear();
            }
        }
    }

    /// The oracle is the list of laws themselves (C19), evaluated on the implementation.
    fn run_spec(&self, ops: &[String], _impl_out: &[String]) -> Option<Vec<String>> {
        let mut out = vec![];
        for op in ops {
            let a = args(op);
            let vs: Vec<OV> = a[1..].iter().map(|t| OV::parse(t).unwrap()).collect();
            let dom = vs.iter().all(|v| v.in_eq_domain());
            let line = match a[0] {
                "law_refl" | "law_trans" => if dom { "true" } else { "?" },
                "law_hash_hist" => if dom { "true" } else { "?" },
                "law_sym" | "law_asym" | "law_eqlt" => "true",
                "law_hash" => if dom && !vs.iter().any(|v| v.has_zero()) { "true" } else { "?" },
                "cmp" => match (&vs[0], &vs[1]) {
                    // integers by numeric value
                    (OV::Int(x), OV::Int(y)) => match x.cmp(y) {
                        std::cmp::Ordering::Less => "lt",
                        std::cmp::Ordering::Equal => "eq",
                        std::cmp::Ordering::Greater => "gt",
                    },
                    (OV::Real(x), OV::Real(y)) => match f64::from_bits(*x).partial_cmp(&f64::from_bits(*y)) {
                        Some(std::cmp::Ordering::Less) => "lt",
                        Some(std::cmp::Ordering::Equal) => "eq",
                        Some(std::cmp::Ordering::Greater) => "gt",
                        None => "none",
                    },
                    _ => "?",
                },
                _ => "?",
            };
            out.push(line.to_string());
        }
        Some(out)
    }

    fn tags(&self, ops: &[String], impl_out: &[String]) -> Vec<String> {
        let mut t = std::collections::BTreeSet::new();
        for (o, r) in ops.iter().zip(impl_out.iter()) {
            let a = args(o);
            t.insert(format!("op:{}", a[0]));
            if a[0] == "eq" && r == "true" {
                t.insert("hit:eq-true".into());
            }
            if a[0] == "cmp" {
                t.insert(format!("hit:cmp-{r}"));
            }
            if o.contains("t[") {
                t.insert("hit:table-operand".into());
            }
            if o.contains("r7ff8") {
                t.insert("hit:nan-operand".into());
            }
        }
        t.into_iter().collect()
    }

    fn shrink_keep_prefix(&self, _ops: &[String]) -> usize {
        0
    }
}

// ------------------------------------------------------------------------------------------

/// `limit = Some(n)`: the VM's memory limit is lowered so that growing the table fails with
/// OutOfMemory at some point; the oracle then demands that the failed operation changed nothing.
/// (The table model of the driver has no memory limit, so that stream is oracle-only.)
pub struct TblEngine {
    pub limited: bool,
}

impl Engine for TblEngine {
    fn name(&self) -> &'static str {
        if self.limited { "tblo" } else { "tbl" }
    }

    fn model_compared(&self, _op: &str) -> bool {
        !self.limited
    }

    fn gen(&self, rng: &mut Rng, tier: Tier, idx: usize) -> Vec<String> {
        let n = if tier == Tier::Quick { rng.range(10, 70) } else { rng.range(10, 250) };
        let mut ops = if self.limited {
            // limits around the size of a small table so that some growth step is refused
            vec![format!("tbl new limit={}", rng.pick(&[600usize, 800, 1000, 1300, 1700, 2400, 3000]))]
        } else {
            vec!["tbl new".to_string()]
        };
        let mut keys: Vec<OV> = (0..6).map(|_| gen_plain_key(rng)).collect();
        for i in 0..6 {
            keys.push(OV::Int(i));
        }
        if idx % 4 == 0 {
            keys.push(OV::Int(3291555020));
        }
        for _ in 0..n {
            let k = rng.pick(&keys).tok();
            let v = gen_value(rng, 1);
            let v = if v.in_eq_domain() { v.tok() } else { "i5".to_string() };
            let (k, v) = if self.limited {
                // scalar payloads only: the memory must be spent on the table itself
                (format!("i{}", rng.range(0, 60)), format!("i{}", rng.range(0, 9)))
            } else {
                (k, v)
            };
            match rng.weighted(&[26, 14, 5, 10, 14, 10, 6, 5, 6]) {
                0 => ops.push(format!("tbl insert {k} {v}")),
                1 => ops.push(format!("tbl get {k}")),
                2 => ops.push(format!("tbl contains {k}")),
                3 => ops.push(format!("tbl remove {k}")),
                4 => ops.push(format!("tbl append {v}")),
                5 => ops.push("tbl pop".into()),
                6 => ops.push(format!("tbl nth {}", rng.range(0, 8))),
                7 => ops.push("tbl len".into()),
                _ => ops.push("tbl iter".into()),
            }
        }
        ops.push("tbl len".into());
        ops.push("tbl iter".into());
        ops
    }

    fn corpus(&self) -> Vec<Vec<String>> {
        let c = |s: &[&str]| s.iter().map(|x| x.to_string()).collect::<Vec<_>>();
        vec![
            // F8: pop must remove the key from the hash part
            c(&["tbl new", "tbl append i10", "tbl append i20", "tbl pop", "tbl get i1", "tbl contains i1", "tbl append i30", "tbl iter", "tbl len"]),
            c(&["tbl new", "tbl insert i3291555020 i1", "tbl get i3291555020", "tbl len", "tbl iter"]),
            c(&["tbl new", "tbl insert s6b i1", "tbl insert s6b i2", "tbl get s6b", "tbl len", "tbl insert n i3", "tbl get n", "tbl insert r3ff8000000000000 i4", "tbl get r3ff8000000000000", "tbl iter"]),
        ]
    }

    fn run_impl(&self, ops: &[String], out: &mut Vec<String>) {
        // (see ValEngine: raw values are held across operations, so no collection may run)
        let mut vm = Vm::new(()).unwrap();
        vm.runtime_data = cao_lang::vm::runtime::RuntimeData::new(1 << 30, 1024, 256).unwrap();
        let mut t: Option<std::ptr::NonNull<cao_lang::vm::runtime::cao_lang_object::CaoLangObject>> = None;
        for op in ops {
            let a = args(op);
            let tbl = |t: &Option<std::ptr::NonNull<cao_lang::vm::runtime::cao_lang_object::CaoLangObject>>| unsafe { (*t.unwrap().as_ptr()).as_table_mut().unwrap() };
            let line = match a.as_slice() {
                ["new", ..] => {
                    vm.clear();
                    if let Some(l) = a.iter().find_map(|x| x.strip_prefix("limit=")) {
                        vm.runtime_data.set_memory_limit(l.parse().unwrap());
                    }
                    let g = vm.init_table().unwrap();
                    let p = g.into_inner();
                    // keep it alive across collections: root it on the value stack
                    vm.stack_push(Value::Object(p)).unwrap();
                    t = Some(p);
                    "ok".to_string()
                }
                ["insert", k, v] => {
                    let k = build(&mut vm, &OV::parse(k).unwrap()).unwrap();
                    let v = build(&mut vm, &OV::parse(v).unwrap()).unwrap();
                    match tbl(&t).insert(k, v) {
                        Ok(()) => "ok".into(),
                        Err(e) => format!("err:{}", err_name(&e)),
                    }
                }
                ["get", k] => {
                    let k = build(&mut vm, &OV::parse(k).unwrap()).unwrap();
                    tbl(&t).get(&k).map(|v| read_back(*v, 8).tok()).unwrap_or("none".into())
                }
                ["contains", k] => {
                    let k = build(&mut vm, &OV::parse(k).unwrap()).unwrap();
                    tbl(&t).contains(&k).to_string()
                }
                ["remove", k] => {
                    let k = build(&mut vm, &OV::parse(k).unwrap()).unwrap();
                    match tbl(&t).remove(k) {
                        Ok(()) => "ok".into(),
                        Err(e) => format!("err:{}", err_name(&e)),
                    }
                }
                ["append", v] => {
                    let v = build(&mut vm, &OV::parse(v).unwrap()).unwrap();
                    match tbl(&t).append(v) {
                        Ok(()) => "ok".into(),
                        Err(e) => format!("err:{}", err_name(&e)),
                    }
                }
                ["pop"] => match tbl(&t).pop() {
                    Ok(v) => read_back(v, 8).tok(),
                    Err(e) => format!("err:{}", err_name(&e)),
                },
                ["nth", i] => read_back(tbl(&t).nth_key(i.parse().unwrap()), 8).tok(),
                ["len"] => {
                    let tb = tbl(&t);
                    if tb.is_empty() != (tb.len() == 0) || tb.keys().len() != tb.len() { "len-mismatch".into() } else { tb.len().to_string() }
                }
                ["iter"] => format!("[{}]", tbl(&t).iter().map(|(k, v)| format!("{}={}", read_back(*k, 8).tok(), read_back(*v, 8).tok())).collect::<Vec<_>>().join(" ")),
                _ => "bad-op".into(),
            };
            out.push(line);
        }
    }

    /// insertion-ordered map model: Vec<(key token, value token)>
    fn run_spec(&self, ops: &[String], _impl_out: &[String]) -> Option<Vec<String>> {
        let mut m: Vec<(String, String)> = vec![];
        let mut out = vec![];
        for (li, op) in ops.iter().enumerate() {
            let a = args(op);
            // a refused allocation is reported as an error and leaves the table unchanged
            let oom = _impl_out.get(li).map(|r| r == "err:OutOfMemory").unwrap_or(false);
            let line = match a.as_slice() {
                ["new", ..] => {
                    m.clear();
                    "ok".to_string()
                }
                ["insert", ..] | ["append", ..] if oom && self.limited => "err:OutOfMemory".into(),
                ["insert", k, v] => {
                    match m.iter_mut().find(|(k2, _)| k2 == k) {
                        Some(e) => e.1 = v.to_string(),
                        None => m.push((k.to_string(), v.to_string())),
                    }
                    "ok".into()
                }
                ["get", k] => m.iter().find(|(k2, _)| k2 == k).map(|e| e.1.clone()).unwrap_or("none".into()),
                ["contains", k] => m.iter().any(|(k2, _)| k2 == k).to_string(),
                ["remove", k] => {
                    m.retain(|(k2, _)| k2 != k);
                    "ok".into()
                }
                ["append", v] => {
                    let mut i = m.len() as i64;
                    while m.iter().any(|(k, _)| *k == format!("i{i}")) {
                        i += 1;
                    }
                    m.push((format!("i{i}"), v.to_string()));
                    "ok".into()
                }
                ["pop"] => m.pop().map(|e| e.1).unwrap_or("n".into()),
                ["nth", i] => m.get(i.parse::<usize>().unwrap()).map(|e| e.0.clone()).unwrap_or("n".into()),
                ["len"] => m.len().to_string(),
                ["iter"] => format!("[{}]", m.iter().map(|(k, v)| format!("{k}={v}")).collect::<Vec<_>>().join(" ")),
                _ => "bad-op".into(),
            };
            out.push(line);
        }
        Some(out)
    }

    fn tags(&self, ops: &[String], impl_out: &[String]) -> Vec<String> {
        let mut t = std::collections::BTreeSet::new();
        for (o, r) in ops.iter().zip(impl_out.iter()) {
            let a = args(o);
            t.insert(format!("op:{}", a[0]));
            if a[0] == "pop" && r != "n" {
                t.insert("hit:pop-nonempty".into());
            }
            if r == "err:OutOfMemory" {
                t.insert("hit:out-of-memory".into());
            }
            if a.len() > 1 {
                match a[1].chars().next() {
                    Some('s') => { t.insert("key:string".into()); }
                    Some('r') => { t.insert("key:real".into()); }
                    Some('n') => { t.insert("key:nil".into()); }
                    Some('i') => { t.insert("key:int".into()); }
                    _ => {}
                }
            }
        }
        t.into_iter().collect()
    }
}

pub fn err_name(e: &ExecutionErrorPayload) -> String {
    let s = format!("{e:?}");
    s.split(|c: char| !c.is_alphanumeric()).next().unwrap_or("").to_string()
}
