//! Engine `vm`: compile + run generated programs on the real VM and on the Lean model
//! (model compiler + model VM); compare outcome, error trace, globals by name, host-call log,
//! accounted memory, stack heights and the number of dispatched instructions.
use crate::cards::*;
use crate::engines::compile::{payload_name, show_cerr, show_trace};
use crate::engines::values::read_back;
use crate::framework::{Engine, Tier};
use crate::progs::*;
use crate::rng::Rng;
use cao_lang::prelude::*;
use cao_lang::vm::runtime::RuntimeData;

pub type Aux = Vec<String>;

fn kv(a: &[&str], key: &str, dflt: usize) -> usize {
    a.iter().find_map(|x| x.strip_prefix(&format!("{key}="))).and_then(|v| v.parse().ok()).unwrap_or(dflt)
}

fn tok(v: Value) -> String {
    read_back(v, 12).tok()
}

fn n_log(vm: &mut Vm<Aux>, x: Value) -> Result<Value, ExecutionErrorPayload> {
    let t = tok(x);
    vm.get_aux_mut().push(format!("log {t}"));
    Ok(Value::Nil)
}
fn n_sum2(vm: &mut Vm<Aux>, a: i64, b: i64) -> Result<Value, ExecutionErrorPayload> {
    vm.get_aux_mut().push(format!("sum2 {a} {b}"));
    Ok(Value::Integer(a.wrapping_add(b)))
}
fn n_fail(_vm: &mut Vm<Aux>) -> Result<Value, ExecutionErrorPayload> {
    Err(ExecutionErrorPayload::invalid_argument("boom"))
}
fn n_callback(vm: &mut Vm<Aux>, f: Value, x: Value) -> Result<Value, ExecutionErrorPayload> {
    vm.stack_push(x)?;
    let r = vm.run_function(f)?;
    let t = tok(r);
    vm.get_aux_mut().push(format!("callback -> {t}"));
    Ok(r)
}
/// typed parameters at the first and the last position (conversion errors name the parameter)
fn n_typed3(vm: &mut Vm<Aux>, a: &str, n: i64, b: &str) -> Result<Value, ExecutionErrorPayload> {
    let l = format!("typed3 {a} {n} {b}");
    vm.get_aux_mut().push(l);
    Ok(Value::Integer(n))
}
/// a protected call: the callee's error is swallowed
fn n_pcall(vm: &mut Vm<Aux>, f: Value, x: Value) -> Result<Value, ExecutionErrorPayload> {
    vm.stack_push(x)?;
    match vm.run_function(f) {
        Ok(r) => Ok(r),
        Err(e) => {
            let k = err_kind(&e);
            vm.get_aux_mut().push(format!("pcall caught {k}"));
            Ok(Value::Nil)
        }
    }
}
/// a plain (untyped) host function: pops its own argument — a function value — and calls it with
/// nothing else pushed
fn n_papply(vm: &mut Vm<Aux>) -> Result<Value, ExecutionErrorPayload> {
    let f = vm.stack_pop();
    let r = vm.run_function(f)?;
    let t = tok(r);
    vm.get_aux_mut().push(format!("papply -> {t}"));
    Ok(r)
}
fn n_strlen(_vm: &mut Vm<Aux>, s: &str) -> Result<Value, ExecutionErrorPayload> {
    Ok(Value::Integer(s.len() as i64))
}
fn n_three(vm: &mut Vm<Aux>, a: Value, b: Value, c: Value) -> Result<Value, ExecutionErrorPayload> {
    // allocate before looking at the arguments: a collection may run while they are only
    // referenced from the argument slots
    drop(vm.init_string("scratch")?);
    let l = format!("three {} {} {}", tok(a), tok(b), tok(c));
    vm.get_aux_mut().push(l);
    Ok(a)
}
fn n_four(vm: &mut Vm<Aux>, a: Value, b: Value, c: Value, d: Value) -> Result<Value, ExecutionErrorPayload> {
    drop(vm.init_string("scratch")?);
    let l = format!("four {} {} {} {}", tok(a), tok(b), tok(c), tok(d));
    vm.get_aux_mut().push(l);
    Ok(d)
}
fn n_mktable(vm: &mut Vm<Aux>, v: Value) -> Result<Value, ExecutionErrorPayload> {
    let mut t = vm.init_table()?;
    let k = vm.init_string("n")?;
    t.as_table_mut().unwrap().insert(k, v)?;
    Ok(Value::Object(t.into_inner()))
}

/// harness-only host function (not in the VM model): protects its argument with two guards and
/// releases them first-in-first-out, as a `Vec` of guards over values that repeat an object does;
/// returns the argument. Guards do not nest: after both are gone the object is an ordinary one.
fn n_reguard(_vm: &mut Vm<Aux>, v: Value) -> Result<Value, ExecutionErrorPayload> {
    use cao_lang::vm::runtime::cao_lang_object::ObjectGcGuard;
    if let Value::Object(o) = v {
        let guards = vec![ObjectGcGuard::new(o), ObjectGcGuard::new(o)];
        drop(guards);
    }
    Ok(v)
}

pub fn parse_sched(a: &[&str]) -> cao_lang::verif::GcSchedule {
    use cao_lang::verif::GcSchedule;
    match a.iter().find_map(|x| x.strip_prefix("sched=")) {
        Some("every") => GcSchedule::Every,
        Some(v) if v.starts_with("single:") => GcSchedule::Single(v[7..].parse().unwrap_or(0)),
        Some(v) if v.starts_with("mask:") => GcSchedule::Mask(u64::from_str_radix(&v[5..], 16).unwrap_or(0)),
        _ => GcSchedule::None,
    }
}

/// the part of an observation that must not depend on when collections run
pub fn obs_part(full: &str) -> String {
    full.split(" alloc=").next().unwrap_or("").to_string()
}

pub fn new_vm(mem: usize, stack: usize, calls: usize) -> Vm<'static, Aux> {
    // swept objects are poisoned and quarantined instead of freed: a use-after-sweep becomes an
    // observable wrong value instead of undefined behaviour
    cao_lang::verif::set_quarantine(true);
    let mut vm = Vm::new(Vec::new()).unwrap();
    vm.runtime_data = RuntimeData::new(mem, stack, calls).unwrap();
    vm.register_native_function("log", into_f1(n_log)).unwrap();
    vm.register_native_function("sum2", into_f2(n_sum2)).unwrap();
    vm.register_native_function("fail", n_fail).unwrap();
    vm.register_native_function("callback", into_f2(n_callback)).unwrap();
    vm.register_native_function("strlen", into_f1(n_strlen)).unwrap();
    vm.register_native_function("three", into_f3(n_three)).unwrap();
    vm.register_native_function("four", into_f4(n_four)).unwrap();
    vm.register_native_function("mktable", into_f1(n_mktable)).unwrap();
    vm.register_native_function("papply", n_papply).unwrap();
    vm.register_native_function("reguard", into_f1(n_reguard)).unwrap();
    vm.register_native_function("pcall", into_f2(n_pcall)).unwrap();
    vm.register_native_function("typed3", into_f3(n_typed3)).unwrap();
    vm
}

pub fn err_kind(e: &ExecutionErrorPayload) -> String {
    match e {
        ExecutionErrorPayload::TaskFailure { name, error } => format!("TaskFailure({name}):{}", err_kind(error)),
        other => payload_name(other),
    }
}

pub fn show_outcome(vm: &Vm<Aux>, prog: &CaoCompiledProgram, res: &Result<(), ExecutionError>) -> String {
    let (r, tr) = match res {
        Ok(()) => ("ok".to_string(), String::new()),
        Err(e) => (format!("err:{}", err_kind(&e.payload)), e.trace.iter().map(show_trace).collect::<Vec<_>>().join(";")),
    };
    let mut globals: Vec<String> = prog
        .variables
        .names
        .iter()
        .map(|(_, name)| match vm.read_var_by_name(name, &prog.variables) {
            Some(v) => format!("{name}={}", tok(v)),
            None => format!("{name}=<unset>"),
        })
        .collect();
    globals.sort();
    let (allocated, _, _) = cao_lang::verif::alloc_counters(&vm.runtime_data);
    format!(
        "{r} trace=[{tr}] globals=[{}] log=[{}] alloc={allocated} frames={} stack={} disp={}",
        globals.join(","),
        vm.get_aux().join("|"),
        cao_lang::verif::call_frames(&vm.runtime_data).len(),
        cao_lang::verif::value_stack(&vm.runtime_data).len(),
        vm.verif_dispatches
    )
}

pub struct VmEngine;

impl Engine for VmEngine {
    fn name(&self) -> &'static str {
        "vm"
    }

    fn gen(&self, rng: &mut Rng, tier: Tier, idx: usize) -> Vec<String> {
        let mut ops = vec![];
        let style = idx % 8;
        if idx % 16 == 2 {
            // one program on fresh VMs with every value-stack size of a range: each instruction
            // that pushes or declares slots meets a nearly full stack at some size
            let size = rng.range(1, 4) as usize;
            let m = gen_program(rng, &GenOpts { size, with_submodules: false });
            let tok = module_tok(&m);
            let from = rng.range(2, 6) as usize;
            for s in from..from + 24 {
                ops.push(format!("vm new mem=409600 stack={s} calls=32"));
                ops.push(format!("vm run {tok} budget=2000"));
            }
            return ops;
        }
        let (mem, stack, calls) = match style {
            5 => (*rng.pick(&[2000usize, 4000, 8000, 20000]), 256, 256),
            6 => (409600, *rng.pick(&[4usize, 8, 16, 32]), *rng.pick(&[2usize, 4, 8])),
            3 | 7 => (*rng.pick(&[409600usize, 20000]), *rng.pick(&[256usize, 24]), *rng.pick(&[256usize, 6, 12])),
            _ => (409600, 256, 256),
        };
        ops.push(format!("vm new mem={mem} stack={stack} calls={calls}"));
        let runs = if style == 7 { rng.range(2, 5) } else { 1 };
        for _ in 0..runs {
            let size = if tier == Tier::Quick { rng.range(1, 6) } else { rng.range(1, 9) } as usize;
            let ws = rng.chance(1, 2);
            let m = gen_program(rng, &GenOpts { size, with_submodules: ws });
            let budget = match rng.below(6) {
                0 => rng.range(0, 40) as usize,
                _ => 1000,
            };
            if style == 4 && rng.chance(1, 2) {
                let b1 = rng.range(1, 60);
                let extra = rng.range(1, 200);
                let b2 = *rng.pick(&[b1 + 1, b1 + extra, 1000, 5000]);
                ops.push(format!("vm budcheck {} budget={b1} budget2={b2}", module_tok(&m)));
            } else if style == 3 && rng.chance(1, 2) {
                let n = if tier == Tier::Quick { rng.range(2, 12) } else { rng.range(2, 40) };
                ops.push(format!("vm repeat {} n={n} clear={} budget={budget}", module_tok(&m), rng.below(2)));
                ops.push("vm stats".into());
            } else if style == 7 {
                // history: run / clear / run-and-compare-with-fresh
                ops.push(format!("vm run {} budget={budget}", module_tok(&m)));
                ops.push("vm clear".into());
                ops.push("vm stats".into());
                let m2 = gen_program(rng, &GenOpts { size, with_submodules: false });
                ops.push(format!("vm runcheck {} budget=1000", module_tok(&m2)));
                ops.push("vm clear".into());
            } else {
                ops.push(format!("vm run {} budget={budget}", module_tok(&m)));
                if rng.chance(1, 2) {
                    ops.push("vm clear".into());
                }
                ops.push("vm stats".into());
            }
        }
        ops
    }

    fn corpus(&self) -> Vec<Vec<String>> {
        let run = |cards: &str, extra: &str| vec!["vm new".to_string(), format!("vm run mod([],[fn($6d61696e,[],[{cards}]){extra}],[]) budget=1000"), "vm stats".to_string(), "vm clear".to_string(), "vm stats".to_string()];
        vec![
            run("setvar($78,int(#5)),setvar($66,closure([$61],[return(add(readvar($61),readvar($78)))])),setglobal($67,dyncall([int(#1)],readvar($66)))", ""),
            // closure created at call depth 1 captures its own frame's local (F11)
            run("setvar($6d,int(#11)),setvar($66,call($6d6b,[int(#5)])),setglobal($67,dyncall([],readvar($66)))", ",fn($6d6b,[$78],[return(closure([],[return(readvar($78))]))])"),
            // two captured variables in ascending order, read after the scope exited (F20)
            run("setvar($66,call($6d6b,[])),setglobal($67,dyncall([],readvar($66)))", ",fn($6d6b,[],[setvar($61,int(#1)),setvar($62,int(#2)),return(closure([],[return(add(mul(readvar($61),int(#10)),readvar($62)))]))])"),
            // (repaired, was K9) `abort` in a function called back by a host function left the callee's
            // frame on the call stack; the enclosing closure then registered a non-local upvalue under a
            // frame without closure (the capture assertion of RegisterUpvalue: a panic)
            run("setvar($78,int(#1)),setvar($66,closure([],[callnative($706170706c79,[function($68)]),closure([],[readvar($78)])])),dyncall([],readvar($66))", ",fn($68,[],[abort])"),
            // error inside a nested card: trace must name the failing card (F14)
            run("setglobal($67,callnative($6661696c,[]))", ""),
            run("setglobal($67,callnative($6e6f7065,[int(#1)]))", ""),
            // a local declared in a While body that never runs (repaired: the body is a scope)
            run("while(int(#0),composite($5f,[setvar($78,int(#1))])),setvar($79,int(#2)),setglobal($6f,readvar($79))", ""),
            run("setvar($63,int(#0)),while(less(readvar($63),int(#2)),composite($5f,[setvar($78,readvar($63)),setvar($63,add(readvar($63),int(#1)))])),setvar($79,int(#2)),setglobal($6f,readvar($79))", ""),
            // key functions that modify the table the library function iterates over (repaired: the
            // natives iterate over a copy of the rows; before, they read freed storage)
            run("setvar($74,array([int(#3),int(#1),int(#2)])),setglobal($67,call($7374642e6d696e5f62795f6b6579,[closure([$6b6579,$76616c],[append(readvar($76616c),readvar($74)),append(readvar($76616c),readvar($74)),append(readvar($76616c),readvar($74)),append(readvar($76616c),readvar($74)),append(readvar($76616c),readvar($74)),append(readvar($76616c),readvar($74)),return(readvar($76616c))]),readvar($74)])),setglobal($68,len(readvar($74)))", ""),
            run("setvar($74,array([int(#3),int(#1),int(#2)])),setglobal($67,call($7374642e736f727465645f62795f6b6579,[closure([$6b6579,$76616c],[append(readvar($76616c),readvar($74)),append(readvar($76616c),readvar($74)),append(readvar($76616c),readvar($74)),append(readvar($76616c),readvar($74)),append(readvar($76616c),readvar($74)),append(readvar($76616c),readvar($74)),return(readvar($76616c))]),readvar($74)])),setglobal($68,len(readvar($74)))", ""),
            // for-each entered with 0-3 free slots (BeginForEach declares four slots in a row)
            {
                let m = "mod([],[fn($6d61696e,[],[setvar($74,array([int(#1),int(#2)])),foreach($69,$6b,$76,readvar($74),composite($5f,[setglobal($67,readvar($76))]))])],[])";
                let mut ops = vec![];
                for s in 2..14 {
                    ops.push(format!("vm new mem=409600 stack={s} calls=32"));
                    ops.push(format!("vm run {m} budget=2000"));
                }
                ops
            },
            // a library callback (entered through run_function, which does not pop a function value
            // first) that returns with the value stack full: key functions of arity 0-2 whose Return
            // card has a value or none, under every small stack size
            {
                let mut ops = vec![];
                for (args, ret) in [("", "return(comment($6e6f))"), ("", "return(int(#1))"), ("$6b", "return(comment($6e6f))"), ("$6b,$76", "return(readvar($76))"), ("", "comment($6e6f)")] {
                    for lib in ["$7374642e736f727465645f62795f6b6579", "$7374642e6d696e5f62795f6b6579"] {
                        let m = format!("mod([],[fn($6d61696e,[],[setvar($74,array([int(#3),int(#1),int(#2)])),setglobal($67,call({lib},[closure([{args}],[{ret}]),readvar($74)]))])],[])");
                        for s in 3..16 {
                            ops.push(format!("vm new mem=409600 stack={s} calls=32"));
                            ops.push(format!("vm run {m} budget=2000"));
                        }
                    }
                }
                ops
            },
            // `return` of a literal whose last encoded byte equals the Return opcode (0x16), with
            // cards behind it that must not run
            run("setglobal($67,call($70,[int(#1)])),setglobal($68,call($71,[]))", ",fn($70,[$78],[iftrue(readvar($78),return(int(#1585267068834414634))),setglobal($73,int(#99)),return(int(#0))]),fn($71,[],[return(int(#1585267068834414592)),setglobal($74,int(#98))])"),
            // the usual "no limit" budget u64::MAX against a small one: same outcome for a program that
            // completes under both
            vec![
                "vm new".to_string(),
                "vm budcheck mod([],[fn($6d61696e,[],[setvar($63,int(#0)),while(less(readvar($63),int(#25)),composite($5f,[setvar($63,add(readvar($63),int(#1)))])),setglobal($67,readvar($63))])],[]) budget=10000 budget2=18446744073709551615".to_string(),
                "vm budcheck mod([],[fn($6d61696e,[],[setglobal($67,int(#1))])],[]) budget=18446744073709551614 budget2=9223372036854775808".to_string(),
            ],
            // a two-parameter host function called through a function value with ONE argument on an
            // otherwise empty stack (no arity check on this path): peek_last(1) with exactly one value;
            // the same boundary for SetProperty / AppendTable / NthRow with one operand missing
            run("setglobal($67,dyncall([int(#1)],nativefn($73756d32)))", ""),
            run("dyncall([str($61)],nativefn($73756d32))", ""),
            run("append(comment($78),table)", ""),
            run("setprop(comment($78),table,int(#1))", ""),
            run("setglobal($67,get(comment($78),int(#0)))", ""),
            // a run that leaves only integer globals behind (no heap object, balanced stack), clear,
            // then a program that reads a global it never set: as on a fresh machine (VarNotFound)
            vec![
                "vm new".to_string(),
                "vm run mod([],[fn($6d61696e,[],[setglobal($61,int(#5)),setglobal($62,int(#6))])],[]) budget=1000".to_string(),
                "vm clear".to_string(),
                "vm run mod([],[fn($6d61696e,[],[setglobal($6f7574,readvar($7a7a))])],[]) budget=1000".to_string(),
                "vm stats".to_string(),
                "vm clear".to_string(),
                "vm run mod([],[fn($6d61696e,[],[setglobal($6f7574,add(readvar($7a7a),int(#1))),setglobal($6f32,readvar($7979))])],[]) budget=1000".to_string(),
            ],
            // tables in a prefix relation are not equal, an empty table equals only an empty one
            run("setvar($61,array([int(#1),int(#2)])),setvar($62,array([int(#1),int(#2),int(#3)])),setvar($63,table),setvar($64,table),setglobal($6531,eq(readvar($61),readvar($62))),setglobal($6532,neq(readvar($63),readvar($61))),setglobal($6533,lesseq(readvar($62),readvar($61))),setglobal($6534,eq(readvar($62),readvar($61))),setglobal($6535,eq(readvar($63),readvar($64))),setglobal($6536,eq(readvar($63),readvar($62)))", ""),
            // callbacks that fail (after a little loop) under a host function that swallows the error:
            // their instructions count against the budget all the same (oracle: dispatches <= budget)
            vec![
                "vm new".to_string(),
                "vm run mod([],[fn($6d61696e,[],[repeat($69,int(#20),composite($5f,[setvar($78,callnative($7063616c6c,[closure([$70],[setvar($63,int(#0)),while(less(readvar($63),int(#8)),composite($5f,[setvar($63,add(readvar($63),int(#1)))])),return(getprop(int(#1),int(#2)))]),int(#0)]))])),setglobal($67,int(#1))])],[]) budget=300".to_string(),
            ],
            // a host callback at every call depth around the call-stack limit (two more frames must fit)
            {
                let mut ops = vec!["vm new mem=409600 stack=256 calls=10".to_string()];
                for n in 0..13 {
                    ops.push(format!("vm run mod([],[fn($6d61696e,[],[setglobal($67,call($66,[int(#{n})]))]),fn($66,[$6e],[ifelse(less(readvar($6e),int(#1)),return(callnative($63616c6c6261636b,[closure([$70],[return(readvar($70))]),int(#7)])),return(call($66,[sub(readvar($6e),int(#1))])))])],[]) budget=2000"));
                    ops.push("vm clear".to_string());
                }
                ops
            },
            // a card without a value in a value slot pops the EMPTY stack (nil); the run ends with a
            // SetProperty, whose pop_n leaves its operands behind in the slots above the top: the
            // second run on the uncleared machine must still read nil
            vec![
                "vm new".to_string(),
                "vm repeat mod([],[fn($6d61696e,[],[setglobal($67,comment($78)),setprop(int(#7),table,int(#0))])],[]) budget=1000 n=3 clear=0".to_string(),
                "vm repeat mod([],[fn($6d61696e,[],[iftrue(comment($78),setglobal($67,int(#1))),append(int(#9),table)])],[]) budget=1000 n=3 clear=0".to_string(),
            ],
            // stale slots above the stack height must not be visible after clear: an earlier run
            // leaves 10,20,30 behind (Return with three arguments), the later program reads locals
            // whose only assignments sit in untaken branches
            vec![
                "vm new".to_string(),
                "vm run mod([],[fn($6d61696e,[],[setglobal($67,call($73756d33,[int(#10),int(#20),int(#30)]))]),fn($73756d33,[$61,$62,$63],[return(add(readvar($61),add(readvar($62),readvar($63))))])],[]) budget=1000".to_string(),
                "vm clear".to_string(),
                "vm runcheck mod([],[fn($6d61696e,[],[setvar($65,int(#0)),iftrue(readvar($65),setvar($626f,int(#1))),iftrue(readvar($65),setvar($7363,int(#2))),setglobal($67,readvar($7363))])],[]) budget=1000".to_string(),
            ],
            // successive runs WITHOUT clear of a balanced program must not consume a resource: the
            // same string object twice in the rows of a sorted table (guards of the sort keys)
            vec![
                "vm new mem=16384 stack=256 calls=256".to_string(),
                format!("vm repeat mod([],[fn($6d61696e,[],[setvar($73,str(${})),setvar($74,table),setprop(readvar($73),readvar($74),int(#0)),setprop(readvar($73),readvar($74),int(#1)),setglobal($67,len(call($7374642e736f72746564,[readvar($74)])))])],[]) n=60 clear=0 budget=2000", "78".repeat(150)),
            ],
            // arithmetic corners in scripts: MIN / -1, MIN * -1, x / 0
            run("setglobal($61,div(int(#-9223372036854775808),int(#-1))),setglobal($62,mul(int(#-9223372036854775808),int(#-1))),setglobal($63,div(int(#1),int(#0))),setglobal($64,sub(int(#-9223372036854775808),int(#1)))", ""),
            // known finding K2: == on a table that contains itself recurses without bound
            run("setvar($74,table),setprop(readvar($74),readvar($74),int(#0)),setglobal($67,eq(readvar($74),readvar($74)))", ""),
            // nested budget (F9): a sort whose key function loops; the whole run has one budget
            // the same through a native function VALUE (CallFunction path instead of CallNative)
            vec!["vm new".to_string(), "vm run mod([],[fn($6d61696e,[],[setvar($74,array([int(#3),int(#1),int(#2),int(#5),int(#4)])),setglobal($67,dyncall([readvar($74),closure([$6b6579,$76616c],[setvar($63,int(#0)),while(less(readvar($63),int(#20)),composite($5f,[setvar($63,add(readvar($63),int(#1)))])),return(readvar($76616c))])],nativefn($5f5f736f7274)))])],[]) budget=150".to_string(), "vm run mod([],[fn($6d61696e,[],[setvar($74,array([int(#3),int(#1),int(#2),int(#5),int(#4)])),setglobal($67,dyncall([closure([$70],[setvar($63,int(#0)),while(less(readvar($63),int(#200)),composite($5f,[setvar($63,add(readvar($63),int(#1)))])),return(readvar($70))]),int(#1)],nativefn($63616c6c6261636b)))])],[]) budget=150".to_string()],
            vec!["vm new".to_string(), "vm run mod([],[fn($6d61696e,[],[setvar($74,array([int(#3),int(#1),int(#2),int(#5),int(#4)])),setglobal($67,call($7374642e736f727465645f62795f6b6579,[closure([$6b6579,$76616c],[setvar($63,int(#0)),while(less(readvar($63),int(#20)),composite($5f,[setvar($63,add(readvar($63),int(#1)))])),return(readvar($76616c))]),readvar($74)]))])],[]) budget=150".to_string(), "vm run mod([],[fn($6d61696e,[],[setglobal($67,int(#1))])],[]) budget=0".to_string()],
        ]
    }

    fn timeout(&self) -> std::time::Duration {
        std::time::Duration::from_secs(20)
    }

    fn run_impl(&self, ops: &[String], out: &mut Vec<String>) {
        let mut vm: Option<Vm<Aux>> = None;
        let mut cfg = (409600usize, 256usize, 256usize);
        for op in ops {
            let a: Vec<&str> = op.split(' ').skip(1).collect();
            let line = match (a[0], vm.as_mut()) {
                ("new", _) => {
                    let stack = kv(&a, "stack", 256);
                    if stack == 0 {
                        "bad-op".to_string()
                    } else {
                        cfg = (kv(&a, "mem", 409600), stack, kv(&a, "calls", 256));
                        vm = Some(new_vm(cfg.0, cfg.1, cfg.2));
                        "ok".into()
                    }
                }
                ("run", Some(vm)) => match parse_module(a[1]) {
                    None => "bad-op".into(),
                    Some(m) => match compile(m, None) {
                        Err(e) => format!("compile-{}", show_cerr(&e)),
                        Ok(prog) => {
                            vm.max_instr = kv(&a, "budget", 1000) as u64;
                            vm.get_aux_mut().clear();
                            cao_lang::verif::set_gc_schedule(parse_sched(&a));
                            let res = vm.run(&prog);
                            let (allocs, forced) = cao_lang::verif::gc_schedule_stats();
                            cao_lang::verif::set_gc_schedule(cao_lang::verif::GcSchedule::None);
                            format!("{} gcs={forced}/{allocs}", show_outcome(vm, &prog, &res))
                        }
                    },
                },
                ("runcheck", Some(vm)) => match parse_module(a[1]) {
                    None => "bad-op".into(),
                    Some(m) => match compile(m, None) {
                        Err(e) => format!("compile-{}", show_cerr(&e)),
                        Ok(prog) => {
                            let budget = kv(&a, "budget", 1000) as u64;
                            vm.max_instr = budget;
                            vm.get_aux_mut().clear();
                            let res = vm.run(&prog);
                            let cur = show_outcome(vm, &prog, &res);
                            let mut fresh = new_vm(cfg.0, cfg.1, cfg.2);
                            fresh.max_instr = budget;
                            let rf = fresh.run(&prog);
                            let fr = show_outcome(&fresh, &prog, &rf);
                            format!("cur={{{cur}}} fresh={{{fr}}}")
                        }
                    },
                },
                ("schedcheck", _) => match parse_module(a[1]) {
                    None => "bad-op".into(),
                    Some(m) => match compile(m, None) {
                        Err(e) => format!("compile-{}", show_cerr(&e)),
                        Ok(prog) => {
                            let budget = kv(&a, "budget", 1000) as u64;
                            let mut va = new_vm(cfg.0, cfg.1, cfg.2);
                            va.max_instr = budget;
                            cao_lang::verif::set_gc_schedule(cao_lang::verif::GcSchedule::None);
                            let ra = va.run(&prog);
                            let oa = show_outcome(&va, &prog, &ra);
                            let mut vb = new_vm(cfg.0, cfg.1, cfg.2);
                            vb.max_instr = budget;
                            cao_lang::verif::set_gc_schedule(parse_sched(&a));
                            let rb = vb.run(&prog);
                            let (allocs, forced) = cao_lang::verif::gc_schedule_stats();
                            cao_lang::verif::set_gc_schedule(cao_lang::verif::GcSchedule::None);
                            let ob = show_outcome(&vb, &prog, &rb);
                            let alloc_of = |o: &str| o.split(" alloc=").nth(1).and_then(|x| x.split(' ').next()).unwrap_or("?").to_string();
                            format!("A={{{}}} B={{{}}} gcs={forced}/{allocs} allocA={} allocB={}", obs_part(&oa), obs_part(&ob), alloc_of(&oa), alloc_of(&ob))
                        }
                    },
                },
                // C17: the same program `n` times on this VM (with or without `clear` in between)
                ("repeat", Some(vm)) => match parse_module(a[1]) {
                    None => "bad-op".into(),
                    Some(m) => match compile(m, None) {
                        Err(e) => format!("compile-{}", show_cerr(&e)),
                        Ok(prog) => {
                            let n = kv(&a, "n", 10);
                            let clear = kv(&a, "clear", 1) == 1;
                            vm.max_instr = kv(&a, "budget", 1000) as u64;
                            let mut first = String::new();
                            let mut same = 0;
                            let mut last = String::new();
                            let mut bal = 0;
                            for i in 0..n {
                                vm.get_aux_mut().clear();
                                let res = vm.run(&prog);
                                if i == 0 {
                                    bal = cao_lang::verif::value_stack(&vm.runtime_data).len();
                                }
                                let full = show_outcome(vm, &prog, &res);
                                let o = if clear { full } else { obs_part(&full) };
                                if i == 0 {
                                    first = o.clone();
                                }
                                if o == first {
                                    same += 1;
                                } else if last.is_empty() {
                                    last = format!(" run{i}={{{o}}}");
                                }
                                if clear {
                                    vm.clear();
                                }
                            }
                            format!("first={{{first}}} bal={bal} same={same}/{n}{last}")
                        }
                    },
                },
                // C03: one program under two budgets on fresh VMs
                ("budcheck", _) => match parse_module(a[1]) {
                    None => "bad-op".into(),
                    Some(m) => match compile(m, None) {
                        Err(e) => format!("compile-{}", show_cerr(&e)),
                        Ok(prog) => {
                            let mut outs = vec![];
                            for key in ["budget", "budget2"] {
                                // (through the builder method, as a host sets a budget)
                                let mut v = new_vm(cfg.0, cfg.1, cfg.2).with_max_iter(kv(&a, key, 1000) as u64);
                                let r = v.run(&prog);
                                outs.push(show_outcome(&v, &prog, &r));
                            }
                            format!("A={{{}}} B={{{}}}", outs[0], outs[1])
                        }
                    },
                },
                ("clear", Some(vm)) => {
                    vm.clear();
                    "ok".into()
                }
                ("stats", Some(vm)) => {
                    let (allocated, next_gc, _) = cao_lang::verif::alloc_counters(&vm.runtime_data);
                    format!(
                        "alloc={allocated} nextgc={next_gc} frames={} stack={} objs={}",
                        cao_lang::verif::call_frames(&vm.runtime_data).len(),
                        cao_lang::verif::value_stack(&vm.runtime_data).len(),
                        cao_lang::verif::object_list(&vm.runtime_data).len()
                    )
                }
                _ => "bad-op".into(),
            };
            out.push(line);
        }
    }

    /// oracle: the observable outcome must not depend on the collection schedule (C02), and the
    /// number of dispatched instructions never exceeds the budget (C03)
    fn run_spec(&self, ops: &[String], impl_out: &[String]) -> Option<Vec<String>> {
        let mut out = vec![];
        for (o, r) in ops.iter().zip(impl_out.iter()) {
            if r == "panic" || r == "crash" || r == "hang" {
                // C04: errors are values, never crashes or hangs
                out.push("an Ok or an execution error (no panic, abort or hang)".into());
                continue;
            }
            if o.starts_with("vm schedcheck") && r.starts_with("A={") {
                let a = r.split("A={").nth(1).and_then(|x| x.split("} B={").next()).unwrap_or("");
                let b = r.split("} B={").nth(1).and_then(|x| x.split("} gcs=").next()).unwrap_or("");
                // machine resources may be hit at different points under different schedules only
                // through the memory limit; everything else must be identical
                if a == b {
                    out.push(r.clone());
                } else {
                    out.push(format!("schedule-dependent outcome: without forced collections {{{a}}}"));
                }
            } else if o.starts_with("vm runcheck") && r.starts_with("cur={") {
                // C17: after `clear` (or on a new VM) a run is indistinguishable from a run on a fresh VM
                let cur = r.split("cur={").nth(1).and_then(|x| x.split("} fresh={").next()).unwrap_or("");
                let fr = r.split("} fresh={").nth(1).map(|x| x.trim_end_matches('}')).unwrap_or("");
                if cur == fr { out.push(r.clone()) } else { out.push(format!("differs from a fresh VM: fresh={{{fr}}}")) }
            } else if o.starts_with("vm repeat") && r.starts_with("first={") {
                // C17: repeating a run (after clear: identical incl. accounted memory; without clear:
                // identical observation whenever the first run succeeded) never changes the outcome
                let clear = !o.contains(" clear=0");
                let n = r.split(" same=").nth(1).and_then(|x| x.split(' ').next()).unwrap_or("");
                let mut it = n.split('/');
                let ok = it.next() == it.next();
                // without clear the claim is about programs that leave the value stack balanced
                let balanced = r.contains("} bal=0 ");
                if ok || (!clear && (!r.starts_with("first={ok ") || !balanced)) { out.push(r.clone()) } else { out.push("every repetition gives the outcome of the first run".into()) }
            } else if o.starts_with("vm budcheck") && r.starts_with("A={") {
                // C03: dispatches <= budget for both; if neither run timed out, the outcomes are equal
                let a = r.split("A={").nth(1).and_then(|x| x.split("} B={").next()).unwrap_or("");
                let b = r.split("} B={").nth(1).map(|x| x.trim_end_matches('}')).unwrap_or("");
                let disp = |x: &str| -> u64 { x.split(" disp=").nth(1).and_then(|y| y.split(' ').next()).and_then(|v| v.parse().ok()).unwrap_or(0) };
                let bud = |k: &str| -> u64 { o.split(' ').find_map(|x| x.strip_prefix(k)).and_then(|v| v.parse().ok()).unwrap_or(1000) };
                let timed = |x: &str| x.contains("Timeout");
                if disp(a) > bud("budget=").max(1) || disp(b) > bud("budget2=").max(1) {
                    out.push("dispatched instructions <= budget".into());
                } else if !timed(a) && !timed(b) && a != b {
                    out.push("two sufficient budgets give the same outcome".into());
                } else {
                    out.push(r.clone());
                }
            } else if o == "vm stats" && ops.iter().zip(impl_out.iter()).position(|(oo, _)| std::ptr::eq(oo, o)).map(|i| i > 0 && ops[i - 1] == "vm clear").unwrap_or(false) {
                // C05 / C17: a cleared VM accounts for no memory and owns no objects
                if r.starts_with("alloc=0 ") && r.ends_with(" frames=0 stack=0 objs=0") { out.push(r.clone()) } else { out.push("after clear: alloc=0 frames=0 stack=0 objs=0 expected".into()) }
            } else if o.starts_with("vm run") && o.contains(" expect=ok") {
                // C05: a program whose live data stays small must not run out of memory
                if !r.contains("OutOfMemory") { out.push("?".into()) } else { out.push("no OutOfMemory expected: the live data of this program is bounded".into()) }
            } else if o.starts_with("vm run") && r.contains(" disp=") {
                let budget: u64 = o.split(' ').find_map(|x| x.strip_prefix("budget=")).and_then(|v| v.parse().ok()).unwrap_or(1000);
                let disp: u64 = r.split(" disp=").nth(1).and_then(|x| x.split(' ').next()).and_then(|v| v.parse().ok()).unwrap_or(0);
                if disp <= budget.max(1) { out.push("?".into()) } else { out.push(format!("dispatched {disp} instructions with budget {budget}")) }
            } else {
                out.push("?".into());
            }
        }
        Some(out)
    }

    fn tags(&self, ops: &[String], impl_out: &[String]) -> Vec<String> {
        let mut t = std::collections::BTreeSet::new();
        for (o, r) in ops.iter().zip(impl_out.iter()) {
            if o.starts_with("vm schedcheck") {
                t.insert("op:schedcheck".to_string());
                if let Some(g) = r.split(" gcs=").nth(1).and_then(|x| x.split('/').next()) {
                    if g != "0" {
                        t.insert("hit:forced-gc".into());
                    }
                }
            }
            if o.starts_with("vm repeat") {
                t.insert(format!("op:repeat{}", if o.contains(" clear=0") { "-noclear" } else { "" }));
            }
            if o.starts_with("vm budcheck") {
                t.insert("op:budcheck".to_string());
                if r.matches("Timeout").count() == 0 {
                    t.insert("budcheck:both-complete".into());
                } else if r.matches("Timeout").count() == 1 {
                    t.insert("budcheck:one-timeout".into());
                }
            }
            if o.starts_with("vm run ") {
                let res = r.split(' ').next().unwrap_or("");
                let res = res.split('(').next().unwrap_or("");
                t.insert(format!("run:{res}"));
                if r.contains("log=[log") || r.contains("|log") {
                    t.insert("hit:host-call".into());
                }
                for k in ["closure(", "foreach(", "repeat(", "while(", "dyncall(", "call(", "callnative(", "array(", "sub("] {
                    if o.contains(k) {
                        t.insert(format!("has:{}", k.trim_end_matches('(')));
                    }
                }
            }
        }
        t.into_iter().collect()
    }

    fn nontrivial(&self, ops: &[String], _o: &[String]) -> bool {
        ops.iter().any(|o| o.len() > 150)
    }
    /// `pcall` (a host function that swallows its callee's error, also a Timeout) exists on the
    /// implementation side and in the reference semantics only: the VM model's budget simulation
    /// (C03 `Sim`) is stated for host functions that propagate errors. Programs that use it are
    /// checked by the oracles (dispatch bound, fresh-VM comparison), not against the VM model.
    fn model_compared(&self, op: &str) -> bool {
        !op.contains("$7063616c6c")
    }
}

/// Engine `gc`: schedule independence (C02) and exact model correspondence under forced
/// collections. Every case runs one program without forced collections and under a schedule
/// (every allocation / one single allocation / a random subset), with swept objects quarantined.
pub struct GcEngine;

impl Engine for GcEngine {
    fn name(&self) -> &'static str {
        "gc"
    }
    fn gen(&self, rng: &mut Rng, tier: Tier, idx: usize) -> Vec<String> {
        let mem = if idx % 5 == 4 { *rng.pick(&[3000usize, 6000, 12000]) } else { 409600 };
        let mut ops = vec![format!("vm new mem={mem} stack=256 calls=256")];
        let size = if tier == Tier::Quick { rng.range(2, 6) } else { rng.range(2, 9) } as usize;
        let ws = rng.chance(1, 2);
        let m = gen_alloc_program(rng, size, ws);
        let t = module_tok(&m);
        let n = if tier == Tier::Quick { 3 } else { 6 };
        ops.push(format!("vm schedcheck {t} budget=3000 sched=every"));
        for _ in 0..n {
            let sched = match rng.below(3) {
                0 => format!("single:{}", rng.below(40)),
                _ => format!("mask:{:x}", rng.next()),
            };
            ops.push(format!("vm schedcheck {t} budget=3000 sched={sched}"));
        }
        ops
    }
    fn corpus(&self) -> Vec<Vec<String>> {
        let run = |cards: &str, extra: &str| {
            let m = format!("mod([],[fn($6d61696e,[],[{cards}]){extra}],[])");
            vec!["vm new".to_string(), format!("vm schedcheck {m} budget=3000 sched=every"), format!("vm schedcheck {m} budget=3000 sched=single:3")]
        };
        vec![
            // SetProperty on a table that only lives on the stack, with a fresh string key
            run("setvar($74,table),setprop(str($76616c),readvar($74),str($6b6579)),setglobal($67,readvar($74))", ""),
            // inline closure called while allocating in its body
            run("setvar($78,int(#5)),setglobal($67,dyncall([str($6162)],closure([$61],[setvar($74,array([readvar($61),readvar($78),str($7a)])),return(readvar($74))])))", ""),
            // sort with a key function that allocates
            run("setvar($74,array([int(#3),int(#1),int(#2)])),setglobal($67,call($7374642e736f727465645f62795f6b6579,[closure([$6b6579,$76616c],[return(callnative($6d6b7461626c65,[readvar($76616c)]))]),readvar($74)]))", ""),
            run("setvar($74,array([int(#3),int(#1),int(#2)])),setglobal($67,call($7374642e6d696e,[readvar($74)])),setglobal($68,get(readvar($74),int(#1)))", ""),
            // the key function removes the rows of the iterated table (global alias) and allocates
            run("setvar($74,array([str($6161616161616161),str($626262626262),str($63636363)])),setglobal($67706f70726f7773,readvar($74)),setglobal($67,call($7374642e6d696e5f62795f6b6579,[closure([$6b6579,$76616c],[pop(readvar($67706f70726f7773)),setvar($6a756e6b,str($676172626167652067617262616765)),return(readvar($76616c))]),readvar($74)]))", ""),
            run("setvar($74,array([str($6161616161616161),str($626262626262),str($63636363)])),setglobal($67706f70726f7773,readvar($74)),setglobal($67,call($7374642e736f727465645f62795f6b6579,[closure([$6b6579,$76616c],[pop(readvar($67706f70726f7773)),setvar($6a756e6b,str($676172626167652067617262616765)),return(readvar($76616c))]),readvar($74)]))", ""),
            // (repaired) a call with too few arguments (known finding K4) makes the callee drop values
            // of its callers; the caller's own Return then RAISED the stack height back to its frame
            // offset and stale slots became locals again - freed in the meantime
            run("setvar($61,str($6161616161616161)),setvar($62,str($6262626262626262)),setvar($63,str($6363636363636363)),setglobal($7230,call($67,[])),setglobal($6f7574,readvar($63))", ",fn($67,[],[call($66,[]),setglobal($6a756e6b,str($676172626167652067617262616765)),return(int(#1))]),fn($66,[$78,$79,$7a],[return(int(#2))])"),
            // a table used as key and mutated afterwards no longer finds its entry; the entry is still stored
            run("setglobal($6b,table),setprop(int(#1),readvar($6b),str($78)),setglobal($74,table),setprop(str($7468652076616c756520737472696e67),readvar($74),readvar($6b)),setprop(int(#2),readvar($6b),str($78)),setglobal($6a756e6b,str($67617262616765)),setprop(int(#1),readvar($6b),str($78)),setglobal($6a756e6b,str($67617262616765)),setglobal($67,getprop(readvar($74),readvar($6b)))", ""),
        ]
    }
    fn timeout(&self) -> std::time::Duration {
        std::time::Duration::from_secs(30)
    }
    fn run_impl(&self, ops: &[String], out: &mut Vec<String>) {
        VmEngine.run_impl(ops, out)
    }
    fn run_spec(&self, ops: &[String], impl_out: &[String]) -> Option<Vec<String>> {
        VmEngine.run_spec(ops, impl_out)
    }
    fn tags(&self, ops: &[String], impl_out: &[String]) -> Vec<String> {
        let mut t: Vec<String> = VmEngine.tags(ops, impl_out);
        for r in impl_out {
            if r.contains("err:OutOfMemory") {
                t.push("hit:oom".into());
            }
        }
        t.sort();
        t.dedup();
        t
    }
    fn nontrivial(&self, ops: &[String], _o: &[String]) -> bool {
        ops.iter().any(|o| o.len() > 150)
    }
}

/// Engine `mem`: the memory ledger (C05). Histories of run/clear/stats on one VM with small
/// limits and three program families: garbage-only loops (must never run out of memory),
/// live data growing until the limit is hit, and tables grown across their capacity steps.
pub struct MemEngine;

fn hex(s: &str) -> String {
    s.bytes().map(|b| format!("{b:02x}")).collect()
}

impl Engine for MemEngine {
    fn name(&self) -> &'static str {
        "mem"
    }
    fn gen(&self, rng: &mut Rng, tier: Tier, _idx: usize) -> Vec<String> {
        let mem = *rng.pick(&[1500usize, 2500, 4000, 8000, 20000, 60000]);
        let mut ops = vec![format!("vm new mem={mem} stack=64 calls=16")];
        let rounds = rng.range(1, 4);
        let big = if tier == Tier::Quick { 400 } else { 3000 };
        let mut cleared = true;
        for _ in 0..rounds {
            let n = rng.range(2, big);
            let family = rng.below(4);
            let payload = |rng: &mut Rng| -> String {
                match rng.below(5) {
                    // an object that a host function guarded twice and released (harness-only `reguard`)
                    4 => format!("callnative($72656775617264,[callnative($6d6b7461626c65,[str(${})])])", hex(&"g".repeat(rng.range(1, 40) as usize))),
                    0 => format!("str(${})", hex(&"x".repeat(rng.range(0, 200) as usize))),
                    1 => "table".to_string(),
                    2 => format!("callnative($6d6b7461626c65,[str(${})])", hex(&"k".repeat(rng.range(1, 40) as usize))),
                    _ => format!("closure([],[return(readvar($69))])"),
                }
            };
            let (cards, expect) = match family {
                // garbage only: each iteration overwrites the only reference to the previous object
                0 => {
                    let p = payload(rng);
                    (format!("setvar($73,nil),repeat($69,int(#{n}),composite($5f,[setvar($73,{p})])),setglobal($67,int(#1))"), if mem >= 4000 { " expect=ok" } else { "" })
                }
                // live data grows: append to a global table until the limit is reached
                1 => {
                    let p = payload(rng);
                    (format!("setvar($74,table),setglobal($67,readvar($74)),repeat($69,int(#{n}),composite($5f,[append({p},readvar($74))]))"), "")
                }
                // one table grown across capacity steps with integer keys, half of them removed again
                2 => (format!("setvar($74,table),repeat($69,int(#{n}),composite($5f,[setprop(readvar($69),readvar($74),readvar($69))])),setglobal($67,len(readvar($74)))"), ""),
                // garbage tables that were grown before being dropped
                _ => {
                    let k = rng.range(1, 40);
                    (format!("setvar($74,nil),repeat($69,int(#{n}),composite($5f,[setvar($74,table),repeat($6a,int(#{k}),composite($5f,[setprop(readvar($6a),readvar($74),readvar($6a))]))])),setglobal($67,int(#1))"), if mem >= 20000 { " expect=ok" } else { "" })
                }
            };
            let budget = 200000;
            let expect = if cleared { expect } else { "" };
            ops.push(format!("vm run mod([],[fn($6d61696e,[],[{cards}])],[]) budget={budget}{expect}"));
            ops.push("vm stats".into());
            // the globals of earlier runs stay live until `clear`: the bounded-live-data expectation
            // is only attached to runs on a cleared machine
            if rng.chance(2, 3) {
                ops.push("vm clear".into());
                ops.push("vm stats".into());
                cleared = true;
            } else {
                cleared = false;
            }
        }
        ops
    }
    fn timeout(&self) -> std::time::Duration {
        std::time::Duration::from_secs(30)
    }
    fn run_impl(&self, ops: &[String], out: &mut Vec<String>) {
        VmEngine.run_impl(ops, out)
    }
    /// accounted bytes never exceed the limit; the rest is the vm engine's oracle
    fn run_spec(&self, ops: &[String], impl_out: &[String]) -> Option<Vec<String>> {
        let mut sp = VmEngine.run_spec(ops, impl_out)?;
        let mem: u64 = ops[0].split(' ').find_map(|x| x.strip_prefix("mem=")).and_then(|v| v.parse().ok()).unwrap_or(u64::MAX);
        for (i, r) in impl_out.iter().enumerate() {
            let alloc: Option<u64> = r.split("alloc=").nth(1).and_then(|x| x.split(' ').next()).and_then(|v| v.parse().ok());
            if let Some(a) = alloc {
                if a > mem && sp[i] == "?" {
                    sp[i] = format!("accounted bytes {a} exceed the limit {mem}");
                }
            }
        }
        Some(sp)
    }
    fn tags(&self, ops: &[String], impl_out: &[String]) -> Vec<String> {
        let mut t: Vec<String> = vec![];
        for (o, r) in ops.iter().zip(impl_out.iter()) {
            if o.starts_with("vm run") {
                t.push(format!("run:{}", r.split(' ').next().unwrap_or("")));
                if o.contains("expect=ok") {
                    t.push("family:garbage-only".into());
                }
                if let Some(g) = r.split(" gcs=").nth(1) {
                    let _ = g;
                }
            }
            if o == "vm clear" {
                t.push("op:clear".into());
            }
        }
        t.sort();
        t.dedup();
        t
    }
    fn nontrivial(&self, ops: &[String], _o: &[String]) -> bool {
        ops.len() >= 3
    }
}
