pub mod compile;
pub mod maps;
pub mod modules;
pub mod natives;
pub mod sem;
pub mod serde_rt;
pub mod stack;
pub mod stdlib;
pub mod trace;
pub mod values;
pub mod vm;

use crate::framework::Engine;

pub fn all() -> Vec<Box<dyn Engine>> {
    vec![
        Box::new(stack::StackEngine),
        Box::new(stack::BStackEngine),
        Box::new(maps::HmEngine),
        Box::new(maps::HtEngine),
        Box::new(maps::HmPlainEngine),
        Box::new(values::ValEngine),
        Box::new(values::TblEngine { limited: false }),
        Box::new(values::TblEngine { limited: true }),
        Box::new(modules::ModEngine),
        Box::new(compile::CmpEngine),
        Box::new(compile::WfEngine),
        Box::new(vm::VmEngine),
        Box::new(vm::GcEngine),
        Box::new(vm::MemEngine),
        Box::new(sem::SemEngine),
        Box::new(trace::TraceEngine),
        Box::new(natives::NatEngine),
        Box::new(stdlib::StdEngine),
        Box::new(serde_rt::SerEngine),
    ]
}

pub fn by_name(name: &str) -> Option<Box<dyn Engine>> {
    all().into_iter().find(|e| e.name() == name)
}
