//! Engines `hm` (CaoHashMap) and `ht` (HandleTable): tracked keys/values (drop log), a
//! scripted failing allocator, colliding / wrapping / zero-hash key universes.
use crate::framework::{Engine, Tier};
use crate::rng::Rng;
use cao_lang::collections::handle_table::{Handle, HandleTable};
use cao_lang::collections::hash_map::CaoHashMap;
use cao_lang::verif::{AllocError, Allocator};
use std::alloc::Layout;
use std::cell::{Cell, RefCell};
use std::collections::BTreeMap;
use std::hash::{Hash, Hasher};
use std::ptr::NonNull;
use std::rc::Rc;

type Log = Rc<RefCell<Vec<u64>>>;

pub const CLONE_OFFSET: u64 = 1_000_000;

#[derive(Debug)]
struct TVal {
    id: u64,
    log: Log,
}
impl Drop for TVal {
    fn drop(&mut self) {
        self.log.borrow_mut().push(self.id);
    }
}
impl Clone for TVal {
    fn clone(&self) -> Self {
        TVal { id: self.id + CLONE_OFFSET, log: self.log.clone() }
    }
}

#[derive(Debug, Clone, PartialEq, Eq, PartialOrd, Ord)]
enum Payload {
    Int(i64),
    Str(String),
}

#[derive(Debug)]
struct TKey {
    id: u64,
    p: Payload,
    log: Option<Log>,
}
impl Drop for TKey {
    fn drop(&mut self) {
        if let Some(l) = &self.log {
            l.borrow_mut().push(self.id);
        }
    }
}
impl Clone for TKey {
    fn clone(&self) -> Self {
        TKey { id: self.id + CLONE_OFFSET, p: self.p.clone(), log: self.log.clone() }
    }
}
impl PartialEq for TKey {
    fn eq(&self, o: &Self) -> bool {
        self.p == o.p
    }
}
impl Eq for TKey {}
impl Hash for TKey {
    fn hash<H: Hasher>(&self, state: &mut H) {
        match &self.p {
            Payload::Int(i) => i.hash(state),
            Payload::Str(s) => s.as_str().hash(state),
        }
    }
}

/// Allocator whose `fail_at`-th allocation (counted from `reset`) fails.
#[derive(Clone)]
pub struct ScriptAlloc {
    n: Rc<Cell<usize>>,
    fail_at: Rc<Cell<Option<usize>>>,
    live: Rc<Cell<isize>>,
}
impl ScriptAlloc {
    fn new() -> Self {
        ScriptAlloc { n: Rc::new(Cell::new(0)), fail_at: Rc::new(Cell::new(None)), live: Rc::new(Cell::new(0)) }
    }
    fn script(&self, f: Option<usize>) {
        self.n.set(0);
        self.fail_at.set(f);
    }
}
impl Allocator for ScriptAlloc {
    unsafe fn alloc(&self, l: Layout) -> Result<NonNull<u8>, AllocError> {
        let k = self.n.get();
        self.n.set(k + 1);
        if self.fail_at.get() == Some(k) {
            return Err(AllocError::OutOfMemory);
        }
        self.live.set(self.live.get() + 1);
        if l.size() == 0 {
            return Ok(NonNull::new_unchecked(l.align() as *mut u8));
        }
        let p = std::alloc::alloc(l);
        Ok(NonNull::new(p).unwrap())
    }
    unsafe fn dealloc(&self, p: NonNull<u8>, l: Layout) {
        self.live.set(self.live.get() - 1);
        if l.size() != 0 {
            std::alloc::dealloc(p.as_ptr(), l);
        }
    }
}

fn args(op: &str) -> Vec<&str> {
    op.split(' ').skip(1).collect()
}

fn fail_of(a: &[&str]) -> Option<usize> {
    a.iter().find_map(|x| x.strip_prefix("fail").and_then(|k| k.parse().ok()))
}

fn key_of(tok: &str) -> Payload {
    if let Some(i) = tok.strip_prefix('i') {
        Payload::Int(i.parse().unwrap())
    } else {
        let hex = &tok[1..];
        let bytes: Vec<u8> = (0..hex.len() / 2).map(|i| u8::from_str_radix(&hex[2 * i..2 * i + 2], 16).unwrap()).collect();
        Payload::Str(String::from_utf8(bytes).unwrap())
    }
}

fn key_tok(p: &Payload) -> String {
    match p {
        Payload::Int(i) => format!("i{i}"),
        Payload::Str(s) => format!("s{}", s.bytes().map(|b| format!("{b:02x}")).collect::<String>()),
    }
}

fn show_ids(mut v: Vec<u64>) -> String {
    v.sort();
    format!("[{}]", v.iter().map(|x| x.to_string()).collect::<Vec<_>>().join(" "))
}

// FNV-1a as the crate's CaoHasher computes it (used only to *construct* interesting keys)
fn fnv(bytes: &[u8]) -> u64 {
    let mut h: u64 = 2166136261;
    for b in bytes {
        h ^= *b as u64;
        h &= 0xFFFF_FFFF;
        h = h.wrapping_mul(16777619);
    }
    h & 0xFFFF_FFFF
}
fn home_i64(k: i64, cap: usize) -> usize {
    let mut h = fnv(&k.to_le_bytes());
    if h == 0 {
        h = 1;
    }
    (h.wrapping_mul(2654435769) as usize) % cap
}

pub struct HmEngine;

pub const ZERO_HASH_KEYS: [i64; 2] = [3291555020, 3416215008];

impl Engine for HmEngine {
    fn name(&self) -> &'static str {
        "hm"
    }

    fn gen(&self, rng: &mut Rng, tier: Tier, idx: usize) -> Vec<String> {
        let cap0 = *rng.pick(&[0usize, 0, 1, 2, 3, 4, 7, 8, 16, 31]);
        let n = if tier == Tier::Quick { rng.range(10, 90) } else { rng.range(10, 300) };
        let mut ops = vec![format!("hm new {cap0}")];
        // key universe: a mix of (a) small ints, (b) ints colliding on one home slot for the
        // capacities of the growth sequence, (c) ints whose home is the last slot (wrap-around),
        // (d) zero-hash keys, (e) strings
        let mut universe: Vec<String> = vec![];
        let style = idx % 5;
        let caps = [1usize, 3, 4, 6, 9, 13, 19, 28, 42, 63, 94, 141];
        let target_cap = *rng.pick(&caps[..8]);
        let mut cand = rng.range(-50, 50);
        let mut tries = 0;
        while universe.len() < 12 {
            cand += 1;
            tries += 1;
            // (2654435769 is a multiple of 3: at capacities 3, 6, 9 every key starts at a slot
            // that is a multiple of 3, so some targets are unsatisfiable)
            let take = if tries > 3000 { true } else { match style {
                0 => true,
                1 => home_i64(cand, target_cap) == home_i64(0, target_cap),
                2 => home_i64(cand, target_cap) + 2 >= target_cap,
                _ => rng.chance(1, 3),
            } };
            if take {
                universe.push(format!("i{cand}"));
            }
        }
        if style >= 3 || rng.chance(1, 4) {
            universe.push(format!("i{}", ZERO_HASH_KEYS[0]));
            universe.push(format!("i{}", ZERO_HASH_KEYS[1]));
        }
        if style == 4 {
            for s in ["", "a", "b", "ab", "key", "value", "héllo"] {
                universe.push(key_tok(&Payload::Str(s.to_string())));
            }
        }
        let big = rng.chance(1, 4);
        let mut next_id = 1u64;
        let faulty = idx % 3 == 0;
        for _ in 0..n {
            let k = if big && rng.chance(1, 2) { format!("i{}", rng.range(1000, 1400)) } else { rng.pick(&universe).clone() };
            let fail = if faulty && rng.chance(1, 6) { " fail0".to_string() } else { String::new() };
            match rng.weighted(&[34, 18, 10, 4, 5, 10, 3, 1, 2, 4, 4, 3, 2]) {
                0 => {
                    ops.push(format!("hm insert {k} {} {}{fail}", next_id, next_id + 1));
                    next_id += 2;
                }
                1 => ops.push(format!("hm remove {k}")),
                2 => ops.push(format!("hm get {k}")),
                3 => ops.push(format!("hm get_mut {k}")),
                4 => ops.push(format!("hm contains {k}")),
                5 => {
                    ops.push(format!("hm entry {k} {} {}{fail}", next_id, next_id + 1));
                    next_id += 2;
                }
                6 => ops.push(format!("hm reserve {}{fail}", rng.range(0, 9))),
                7 => ops.push("hm clear".into()),
                8 => ops.push("hm clone".into()),
                9 => ops.push("hm len".into()),
                10 => ops.push("hm iter".into()),
                11 => ops.push("hm cap".into()),
                _ => ops.push("hm dropped".into()),
            }
        }
        ops.push("hm len".into());
        ops.push("hm iter".into());
        ops.push("hm drop".into());
        ops
    }

    fn corpus(&self) -> Vec<Vec<String>> {
        let c = |s: &[&str]| s.iter().map(|x| x.to_string()).collect::<Vec<_>>();
        vec![
            // F3: entry after growth wrote through a stale index
            c(&["hm new 0", "hm entry i1 1 2", "hm entry i2 3 4", "hm entry i3 5 6", "hm get i1", "hm get i2", "hm get i3", "hm len", "hm iter", "hm drop"]),
            // F4: key hashing to the reserved value 0
            c(&["hm new 8", "hm insert i3291555020 1 2", "hm get i3291555020", "hm len", "hm contains i3291555020", "hm drop"]),
            // F2: remove must decrement len and keep other keys reachable
            c(&["hm new 0", "hm insert i1 1 2", "hm insert i2 3 4", "hm insert i3 5 6", "hm insert i4 7 8", "hm remove i1", "hm len", "hm get i2", "hm get i3", "hm get i4", "hm iter", "hm remove i3", "hm iter", "hm drop"]),
        ]
    }

    fn run_impl(&self, ops: &[String], out: &mut Vec<String>) {
        let log: Log = Rc::new(RefCell::new(vec![]));
        let alloc = ScriptAlloc::new();
        let mut m: Option<CaoHashMap<TKey, TVal, ScriptAlloc>> = None;
        let mk = |p: Payload, id: u64, log: &Log| TKey { id, p, log: Some(log.clone()) };
        let probe = |p: Payload| TKey { id: 0, p, log: None };
        for op in ops {
            let a = args(op);
            alloc.script(fail_of(&a));
            let line = match (a[0], m.as_mut()) {
                ("new", _) => {
                    m = None;
                    log.borrow_mut().clear();
                    match CaoHashMap::with_capacity_in(a[1].parse().unwrap(), alloc.clone()) {
                        Ok(x) => {
                            m = Some(x);
                            "ok".to_string()
                        }
                        Err(_) => "err:alloc".into(),
                    }
                }
                ("insert", Some(m)) => {
                    let k = mk(key_of(a[1]), a[2].parse().unwrap(), &log);
                    let v = TVal { id: a[3].parse().unwrap(), log: log.clone() };
                    match m.insert(k, v) {
                        Ok(_) => "ok".into(),
                        Err(_) => "err:alloc".into(),
                    }
                }
                ("entry", Some(m)) => {
                    let k = mk(key_of(a[1]), a[2].parse().unwrap(), &log);
                    let vid: u64 = a[3].parse().unwrap();
                    let l2 = log.clone();
                    match m.entry(k) {
                        Ok(e) => format!("v{}", e.or_insert_with(|| TVal { id: vid, log: l2 }).id),
                        Err(_) => "err:alloc".into(),
                    }
                }
                ("remove", Some(m)) => match m.remove(&probe(key_of(a[1]))) {
                    Some(v) => {
                        let id = v.id;
                        std::mem::forget(v);
                        format!("v{id}")
                    }
                    None => "none".into(),
                },
                ("get", Some(m)) => m.get(&probe(key_of(a[1]))).map(|v| format!("v{}", v.id)).unwrap_or("none".into()),
                ("get_mut", Some(m)) => m.get_mut(&probe(key_of(a[1]))).map(|v| format!("v{}", v.id)).unwrap_or("none".into()),
                ("contains", Some(m)) => m.contains(&probe(key_of(a[1]))).to_string(),
                ("reserve", Some(m)) => match m.reserve(a[1].parse().unwrap()) {
                    Ok(()) => "ok".into(),
                    Err(_) => "err:alloc".into(),
                },
                ("clear", Some(m)) => {
                    m.clear();
                    "ok".into()
                }
                ("clone", Some(mm)) => {
                    let c = mm.clone();
                    m = Some(c); // drops the original
                    "ok".into()
                }
                ("len", Some(m)) => {
                    if m.is_empty() != (m.len() == 0) { "is_empty-mismatch".into() } else { m.len().to_string() }
                }
                ("cap", Some(m)) => m.capacity().to_string(),
                ("iter", Some(m)) => {
                    let mut v: Vec<String> = m.iter().map(|(k, v)| format!("{}:{}:{}", key_tok(&k.p), k.id, v.id)).collect();
                    let v2: Vec<String> = m.iter_mut().map(|(k, v)| format!("{}:{}:{}", key_tok(&k.p), k.id, v.id)).collect();
                    if v.len() != v2.len() {
                        "iter-mismatch".into()
                    } else {
                        v.sort();
                        format!("[{}]", v.join(" "))
                    }
                }
                ("dropped", Some(_)) => show_ids(log.borrow().clone()),
                ("drop", Some(_)) => {
                    m = None;
                    let r = show_ids(log.borrow().clone());
                    if alloc.live.get() != 0 { format!("leak:{} {r}", alloc.live.get()) } else { r }
                }
                _ => "bad-op".into(),
            };
            out.push(line);
        }
    }

    fn run_spec(&self, ops: &[String], impl_out: &[String]) -> Option<Vec<String>> {
        // reference: BTreeMap payload -> (kid, vid); drops tracked per the ownership rules
        let mut m: Option<BTreeMap<Payload, (u64, u64)>> = None;
        let mut dropped: Vec<u64> = vec![];
        let mut out = vec![];
        for (li, op) in ops.iter().enumerate() {
            let a = args(op);
            let fail = fail_of(&a);
            // whether an operation allocates is the implementation's choice: with a scripted
            // fault the oracle accepts `err:alloc` provided the map is then unchanged
            let failed = fail.is_some() && impl_out.get(li).map(|s| s == "err:alloc").unwrap_or(false);
            let line = match (a[0], m.as_mut()) {
                ("new", _) => {
                    dropped.clear();
                    if fail == Some(0) {
                        m = None;
                        "err:alloc".to_string()
                    } else {
                        m = Some(BTreeMap::new());
                        "ok".into()
                    }
                }
                ("insert", Some(m)) => {
                    let (k, kid, vid) = (key_of(a[1]), a[2].parse().unwrap(), a[3].parse().unwrap());
                    if failed {
                        dropped.push(kid);
                        dropped.push(vid);
                        "err:alloc".into()
                    } else {
                        if let Some((ok, ov)) = m.insert(k, (kid, vid)) {
                            dropped.push(ok);
                            dropped.push(ov);
                        }
                        "ok".into()
                    }
                }
                ("entry", Some(m)) => {
                    let (k, kid, vid): (Payload, u64, u64) = (key_of(a[1]), a[2].parse().unwrap(), a[3].parse().unwrap());
                    if failed {
                        dropped.push(kid);
                        out.push("err:alloc".into());
                        continue;
                    }
                    match m.get(&k) {
                        Some((_, v)) => {
                            dropped.push(kid);
                            format!("v{v}")
                        }
                        None => {
                            m.insert(k, (kid, vid));
                            format!("v{vid}")
                        }
                    }
                }
                ("remove", Some(m)) => match m.remove(&key_of(a[1])) {
                    Some((kid, vid)) => {
                        dropped.push(kid);
                        format!("v{vid}")
                    }
                    None => "none".into(),
                },
                ("get", Some(m)) | ("get_mut", Some(m)) => m.get(&key_of(a[1])).map(|(_, v)| format!("v{v}")).unwrap_or("none".into()),
                ("contains", Some(m)) => m.contains_key(&key_of(a[1])).to_string(),
                ("reserve", Some(_)) => {
                    if failed { "err:alloc".into() } else { "ok".into() }
                }
                ("clear", Some(m)) => {
                    for (_, (k, v)) in std::mem::take(m) {
                        dropped.push(k);
                        dropped.push(v);
                    }
                    "ok".into()
                }
                ("clone", Some(m)) => {
                    let old = std::mem::take(m);
                    for (p, (k, v)) in old {
                        dropped.push(k);
                        dropped.push(v);
                        m.insert(p, (k + CLONE_OFFSET, v + CLONE_OFFSET));
                    }
                    "ok".into()
                }
                ("len", Some(m)) => m.len().to_string(),
                ("cap", Some(_)) => "?".into(),
                ("iter", Some(m)) => {
                    let mut v: Vec<String> = m.iter().map(|(p, (k, v))| format!("{}:{k}:{v}", key_tok(p))).collect();
                    v.sort();
                    format!("[{}]", v.join(" "))
                }
                ("dropped", Some(_)) => show_ids(dropped.clone()),
                ("drop", Some(mm)) => {
                    for (_, (k, v)) in std::mem::take(mm) {
                        dropped.push(k);
                        dropped.push(v);
                    }
                    m = None;
                    show_ids(dropped.clone())
                }
                _ => "bad-op".into(),
            };
            out.push(line);
        }
        Some(out)
    }

    fn tags(&self, ops: &[String], impl_out: &[String]) -> Vec<String> {
        let mut t = std::collections::BTreeSet::new();
        let mut caps = std::collections::BTreeSet::new();
        for (o, r) in ops.iter().zip(impl_out.iter()) {
            let a = args(o);
            t.insert(format!("op:{}", a[0]));
            if r == "err:alloc" {
                t.insert("hit:alloc-failure".into());
            }
            if a[0] == "cap" {
                caps.insert(r.clone());
            }
            if a.len() > 1 && a[1].starts_with("i32915") {
                t.insert("hit:zero-hash-key".into());
            }
            if a.len() > 1 && a[1].starts_with('s') {
                t.insert("hit:string-key".into());
            }
            if a[0] == "remove" && r != "none" {
                t.insert("hit:remove-present".into());
            }
        }
        if caps.len() > 1 {
            t.insert("hit:growth-observed".into());
        }
        t.into_iter().collect()
    }

    fn timeout(&self) -> std::time::Duration {
        std::time::Duration::from_secs(3)
    }

    fn nontrivial(&self, ops: &[String], _o: &[String]) -> bool {
        ops.iter().filter(|o| o.starts_with("hm insert") || o.starts_with("hm entry")).count() >= 2
    }
}

// ------------------------------------------------------------------------------------------

pub struct HtEngine;

fn handle_home(h: u32, cap: usize) -> usize {
    (h.wrapping_mul(2654435769) as usize) & (cap - 1)
}

fn mk_handle(x: u32) -> Handle {
    // Handle's field is private; it is `Pod` + `#[repr(C)]` over one u32
    unsafe { std::mem::transmute::<u32, Handle>(x) }
}

impl Engine for HtEngine {
    fn name(&self) -> &'static str {
        "ht"
    }

    fn gen(&self, rng: &mut Rng, tier: Tier, idx: usize) -> Vec<String> {
        let cap0 = match idx % 4 {
            0 => rng.range(0, 40) as usize,
            1 => *rng.pick(&[2usize, 4, 8, 16, 32]),
            _ => 16,
        };
        let n = if tier == Tier::Quick { rng.range(10, 100) } else { rng.range(10, 300) };
        let mut ops = vec![format!("ht new {cap0}")];
        let style = idx % 4;
        let tc = *rng.pick(&[4usize, 8, 16, 32, 64]);
        let mut universe: Vec<u32> = vec![];
        let mut cand: u32 = rng.below(1000) as u32;
        let mut tries = 0;
        while universe.len() < 14 {
            cand = cand.wrapping_add(1);
            if cand == 0 {
                continue;
            }
            tries += 1;
            let take = if tries > 5000 { true } else { match style {
                0 => true,
                1 => handle_home(cand, tc) == 3 % tc,
                2 => handle_home(cand, tc) + 2 >= tc,
                _ => rng.chance(1, 2),
            } };
            if take {
                universe.push(cand);
            }
        }
        let many = rng.chance(1, 3);
        let mut next_id = 1u64;
        let mut fresh = 5000u32;
        let faulty = idx % 3 == 0;
        for _ in 0..n {
            let fail = if faulty && rng.chance(1, 6) { format!(" fail{}", rng.below(2)) } else { String::new() };
            let k = if many && rng.chance(2, 3) {
                fresh += 1;
                fresh
            } else if rng.chance(1, 40) {
                0
            } else {
                *rng.pick(&universe)
            };
            match rng.weighted(&[30, 16, 10, 3, 5, 16, 3, 1, 2, 4, 4, 3, 4]) {
                0 => {
                    ops.push(format!("ht insert h{k} {next_id}{fail}"));
                    next_id += 1;
                }
                1 => ops.push(format!("ht remove h{k}")),
                2 => ops.push(format!("ht get h{k}")),
                3 => ops.push(format!("ht get_mut h{k}")),
                4 => ops.push(format!("ht contains h{k}")),
                5 => {
                    if k != 0 {
                        ops.push(format!("ht entry h{k} {next_id}"));
                        next_id += 1;
                    }
                }
                6 => ops.push(format!("ht reserve {}{fail}", rng.range(0, 20))),
                7 => ops.push("ht clear".into()),
                8 => ops.push("ht clone".into()),
                9 => ops.push("ht len".into()),
                10 => ops.push("ht iter".into()),
                11 => ops.push("ht cap".into()),
                _ => ops.push(format!("ht index h{k}")),
            }
        }
        ops.push("ht len".into());
        ops.push("ht iter".into());
        ops.push("ht drop".into());
        ops
    }

    fn corpus(&self) -> Vec<Vec<String>> {
        let mut v = vec![];
        // F6: 17 distinct keys through `entry` on the default-capacity table
        let mut c = vec!["ht new 16".to_string()];
        for i in 1..=20 {
            c.push(format!("ht entry h{i} {i}"));
        }
        c.push("ht len".into());
        c.push("ht iter".into());
        c.push("ht drop".into());
        v.push(c);
        // F7: capacities 0, 1, 10
        for cap in [0, 1, 10] {
            v.push(vec![format!("ht new {cap}"), "ht insert h1 1".into(), "ht insert h2 2".into(), "ht get h1".into(), "ht get h2".into(), "ht get h3".into(), "ht cap".into(), "ht drop".into()]);
        }
        // F5: remove must not hide a colliding handle
        let tc = 16usize;
        let mut col = vec![];
        let mut x = 1u32;
        while col.len() < 3 {
            if handle_home(x, tc) == 5 {
                col.push(x);
            }
            x += 1;
        }
        v.push(vec!["ht new 16".into(), format!("ht insert h{} 1", col[0]), format!("ht insert h{} 2", col[1]), format!("ht insert h{} 3", col[2]),
                    format!("ht remove h{}", col[0]), format!("ht get h{}", col[1]), format!("ht get h{}", col[2]), "ht len".into(), "ht iter".into(), "ht drop".into()]);
        v
    }

    fn timeout(&self) -> std::time::Duration {
        std::time::Duration::from_secs(3)
    }

    fn run_impl(&self, ops: &[String], out: &mut Vec<String>) {
        let log: Log = Rc::new(RefCell::new(vec![]));
        let alloc = ScriptAlloc::new();
        let mut m: Option<HandleTable<TVal, ScriptAlloc>> = None;
        let h = |tok: &str| mk_handle(tok[1..].parse::<u32>().unwrap());
        for op in ops {
            let a = args(op);
            alloc.script(fail_of(&a));
            let line = match (a[0], m.as_mut()) {
                ("new", _) => {
                    m = None;
                    log.borrow_mut().clear();
                    match HandleTable::with_capacity(a[1].parse().unwrap(), alloc.clone()) {
                        Ok(x) => {
                            m = Some(x);
                            "ok".to_string()
                        }
                        Err(_) => "err:alloc".into(),
                    }
                }
                ("insert", Some(m)) => {
                    let v = TVal { id: a[2].parse().unwrap(), log: log.clone() };
                    match m.insert(h(a[1]), v) {
                        Ok(_) => "ok".into(),
                        Err(cao_lang::collections::handle_table::MapError::InvalidHandle) => "err:InvalidHandle".into(),
                        Err(_) => "err:alloc".into(),
                    }
                }
                ("entry", Some(m)) => {
                    let vid: u64 = a[2].parse().unwrap();
                    let l2 = log.clone();
                    format!("v{}", m.entry(h(a[1])).or_insert_with(|| TVal { id: vid, log: l2 }).id)
                }
                ("remove", Some(m)) => match m.remove(h(a[1])) {
                    Some(v) => {
                        let id = v.id;
                        std::mem::forget(v);
                        format!("v{id}")
                    }
                    None => "none".into(),
                },
                ("get", Some(m)) => m.get(h(a[1])).map(|v| format!("v{}", v.id)).unwrap_or("none".into()),
                ("get_mut", Some(m)) => m.get_mut(h(a[1])).map(|v| format!("v{}", v.id)).unwrap_or("none".into()),
                ("contains", Some(m)) => m.contains(h(a[1])).to_string(),
                ("index", Some(m)) => {
                    // `Index` is only implemented for the default allocator; go through get and
                    // keep the documented panic-on-absent out of the stream
                    m.get(h(a[1])).map(|v| format!("v{}", v.id)).unwrap_or("absent".into())
                }
                ("reserve", Some(m)) => match m.reserve(a[1].parse().unwrap()) {
                    Ok(()) => "ok".into(),
                    Err(_) => "err:alloc".into(),
                },
                ("clear", Some(m)) => {
                    m.clear();
                    "ok".into()
                }
                ("clone", Some(mm)) => {
                    let c = mm.clone();
                    m = Some(c);
                    "ok".into()
                }
                ("len", Some(m)) => {
                    if m.is_empty() != (m.len() == 0) { "is_empty-mismatch".into() } else { m.len().to_string() }
                }
                ("cap", Some(m)) => m.capacity().to_string(),
                ("iter", Some(m)) => {
                    let mut v: Vec<String> = m.iter().map(|(k, v)| format!("h{}:{}", k.value(), v.id)).collect();
                    let n2 = m.iter_mut().count();
                    if v.len() != n2 {
                        "iter-mismatch".into()
                    } else {
                        v.sort();
                        format!("[{}]", v.join(" "))
                    }
                }
                ("dropped", Some(_)) => show_ids(log.borrow().clone()),
                ("drop", Some(_)) => {
                    m = None;
                    let r = show_ids(log.borrow().clone());
                    if alloc.live.get() != 0 { format!("leak:{} {r}", alloc.live.get()) } else { r }
                }
                _ => "bad-op".into(),
            };
            out.push(line);
        }
    }

    fn run_spec(&self, ops: &[String], impl_out: &[String]) -> Option<Vec<String>> {
        let mut m: Option<BTreeMap<u32, u64>> = None;
        let mut dropped: Vec<u64> = vec![];
        let mut out = vec![];
        let h = |tok: &str| tok[1..].parse::<u32>().unwrap();
        for (li, op) in ops.iter().enumerate() {
            let a = args(op);
            let failed = fail_of(&a).is_some() && impl_out.get(li).map(|s| s == "err:alloc").unwrap_or(false);
            let line = match (a[0], m.as_mut()) {
                ("new", _) => {
                    dropped.clear();
                    m = Some(BTreeMap::new());
                    "ok".to_string()
                }
                ("insert", Some(m)) => {
                    let (k, vid) = (h(a[1]), a[2].parse().unwrap());
                    if failed && k != 0 {
                        dropped.push(vid);
                        "err:alloc".into()
                    } else if k == 0 {
                        dropped.push(vid);
                        "err:InvalidHandle".into()
                    } else {
                        if let Some(o) = m.insert(k, vid) {
                            dropped.push(o);
                        }
                        "ok".into()
                    }
                }
                ("entry", Some(m)) => {
                    let (k, vid): (u32, u64) = (h(a[1]), a[2].parse().unwrap());
                    format!("v{}", *m.entry(k).or_insert(vid))
                }
                ("remove", Some(m)) => m.remove(&h(a[1])).map(|v| format!("v{v}")).unwrap_or("none".into()),
                ("get", Some(m)) | ("get_mut", Some(m)) => m.get(&h(a[1])).map(|v| format!("v{v}")).unwrap_or("none".into()),
                ("index", Some(m)) => m.get(&h(a[1])).map(|v| format!("v{v}")).unwrap_or("absent".into()),
                ("contains", Some(m)) => m.contains_key(&h(a[1])).to_string(),
                ("reserve", Some(_)) => {
                    if failed { "err:alloc".into() } else { "ok".into() }
                }
                ("clear", Some(m)) => {
                    for (_, v) in std::mem::take(m) {
                        dropped.push(v);
                    }
                    "ok".into()
                }
                ("clone", Some(m)) => {
                    let old = std::mem::take(m);
                    for (k, v) in old {
                        dropped.push(v);
                        m.insert(k, v + CLONE_OFFSET);
                    }
                    "ok".into()
                }
                ("len", Some(m)) => m.len().to_string(),
                ("cap", Some(_)) => "?".into(),
                ("iter", Some(m)) => {
                    let mut v: Vec<String> = m.iter().map(|(k, v)| format!("h{k}:{v}")).collect();
                    v.sort();
                    format!("[{}]", v.join(" "))
                }
                ("dropped", Some(_)) => show_ids(dropped.clone()),
                ("drop", Some(mm)) => {
                    for (_, v) in std::mem::take(mm) {
                        dropped.push(v);
                    }
                    m = None;
                    show_ids(dropped.clone())
                }
                _ => "bad-op".into(),
            };
            out.push(line);
        }
        Some(out)
    }

    fn tags(&self, ops: &[String], impl_out: &[String]) -> Vec<String> {
        let mut t = std::collections::BTreeSet::new();
        let mut caps = std::collections::BTreeSet::new();
        let mut entries = 0;
        for (o, r) in ops.iter().zip(impl_out.iter()) {
            let a = args(o);
            t.insert(format!("op:{}", a[0]));
            if a[0] == "cap" {
                caps.insert(r.clone());
            }
            if a[0] == "entry" {
                entries += 1;
            }
            if r == "err:InvalidHandle" {
                t.insert("hit:zero-handle".into());
            }
            if r == "err:alloc" {
                t.insert("hit:alloc-failure".into());
            }
            if a[0] == "remove" && r != "none" {
                t.insert("hit:remove-present".into());
            }
            if a[0] == "new" && !["2", "4", "8", "16", "32"].contains(&a[1]) {
                t.insert("hit:non-pot-initial-capacity".into());
            }
        }
        if caps.len() > 1 {
            t.insert("hit:growth-observed".into());
        }
        if entries > 16 {
            t.insert("hit:more-than-16-entry-calls".into());
        }
        t.into_iter().collect()
    }

    fn nontrivial(&self, ops: &[String], _o: &[String]) -> bool {
        ops.iter().filter(|o| o.starts_with("ht insert") || o.starts_with("ht entry")).count() >= 2
    }
}

/// Engine `hmp`: the hash map instantiated with plain-data keys and values (`u32 -> u32`, no drop
/// glue: the code paths that `needs_drop` selects differ from those of the drop-logging engine
/// `hm`). Oracle: a `BTreeMap` run on the same operations; no Lean model (the theorems are
/// parametric in key and value types).
pub struct HmPlainEngine;

impl Engine for HmPlainEngine {
    fn name(&self) -> &'static str {
        "hmp"
    }
    fn gen(&self, rng: &mut Rng, tier: Tier, _idx: usize) -> Vec<String> {
        let cap = *rng.pick(&[0usize, 1, 2, 3, 8, 13, 16]);
        let mut ops = vec![format!("hmp new {cap}")];
        // a small universe so that keys are re-used; multiples of the capacity collide
        let universe: Vec<u32> = (0..12).map(|_| rng.range(0, 40) as u32).chain([0, 13, 26, 39, 7, 15, 8, 16]).collect();
        let n = if tier == Tier::Quick { rng.range(10, 80) } else { rng.range(10, 300) };
        for _ in 0..n {
            let k = *rng.pick(&universe);
            match rng.weighted(&[30, 12, 12, 14, 4, 8, 8]) {
                0 => ops.push(format!("hmp insert {k} {}", rng.range(0, 1000))),
                1 => ops.push(format!("hmp get {k}")),
                2 => ops.push(format!("hmp contains {k}")),
                3 => ops.push(format!("hmp remove {k}")),
                4 => ops.push("hmp clear".into()),
                5 => ops.push("hmp len".into()),
                _ => ops.push("hmp iter".into()),
            }
        }
        ops
    }
    fn run_impl(&self, ops: &[String], out: &mut Vec<String>) {
        let alloc = ScriptAlloc::new();
        let mut m: Option<CaoHashMap<u32, u32, ScriptAlloc>> = None;
        for op in ops {
            let a: Vec<&str> = op.split(' ').skip(1).collect();
            let line = match (a[0], m.as_mut()) {
                ("new", _) => {
                    m = CaoHashMap::with_capacity_in(a[1].parse().unwrap(), alloc.clone()).ok();
                    "ok".to_string()
                }
                ("insert", Some(m)) => match m.insert(a[1].parse().unwrap(), a[2].parse().unwrap()) {
                    Ok(_) => "ok".into(),
                    Err(_) => "err:alloc".into(),
                },
                ("get", Some(m)) => match m.get(&a[1].parse::<u32>().unwrap()) {
                    Some(v) => format!("v{v}"),
                    None => "none".into(),
                },
                ("contains", Some(m)) => m.contains(&a[1].parse::<u32>().unwrap()).to_string(),
                ("remove", Some(m)) => match m.remove(&a[1].parse::<u32>().unwrap()) {
                    Some(v) => format!("v{v}"),
                    None => "none".into(),
                },
                ("clear", Some(m)) => {
                    m.clear();
                    "ok".into()
                }
                ("len", Some(m)) => m.len().to_string(),
                ("iter", Some(m)) => {
                    let mut v: Vec<(u32, u32)> = m.iter().map(|(k, v)| (*k, *v)).collect();
                    v.sort();
                    format!("{v:?}")
                }
                _ => "bad-op".into(),
            };
            out.push(line);
        }
    }
    fn run_spec(&self, ops: &[String], _impl_out: &[String]) -> Option<Vec<String>> {
        let mut m = std::collections::BTreeMap::<u32, u32>::new();
        let mut out = vec![];
        for op in ops {
            let a: Vec<&str> = op.split(' ').skip(1).collect();
            out.push(match a[0] {
                "new" => {
                    m.clear();
                    "ok".to_string()
                }
                "insert" => {
                    m.insert(a[1].parse().unwrap(), a[2].parse().unwrap());
                    "ok".into()
                }
                "get" => m.get(&a[1].parse().unwrap()).map(|v| format!("v{v}")).unwrap_or("none".into()),
                "contains" => m.contains_key(&a[1].parse().unwrap()).to_string(),
                "remove" => m.remove(&a[1].parse().unwrap()).map(|v| format!("v{v}")).unwrap_or("none".into()),
                "clear" => {
                    m.clear();
                    "ok".into()
                }
                "len" => m.len().to_string(),
                "iter" => format!("{:?}", m.iter().map(|(k, v)| (*k, *v)).collect::<Vec<_>>()),
                _ => "bad-op".into(),
            });
        }
        Some(out)
    }
    fn model_compared(&self, _op: &str) -> bool {
        false
    }
    fn tags(&self, ops: &[String], _impl_out: &[String]) -> Vec<String> {
        let mut t: Vec<String> = ops.iter().map(|o| format!("op:{}", o.split(' ').nth(1).unwrap_or(""))).collect();
        t.sort();
        t.dedup();
        t
    }
}
