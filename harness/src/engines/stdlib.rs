//! Engine `std` (C09): every standard-library function against a list-level specification, for
//! tables with integer / real / string / nil keys and values, duplicates and ties, and script
//! callbacks (closures). The specification is computed here on host-constructed values.
use crate::cards::*;
use crate::engines::values::{build, read_back, OV};
use crate::engines::vm::{new_vm, show_outcome};
use crate::framework::{Engine, Tier};
use crate::rng::Rng;
use cao_lang::compiler::{Card, CardBody, Function, Module, UnaryExpression};
use cao_lang::prelude::*;

fn c(b: CardBody) -> Card {
    b.into()
}
fn rv(n: &str) -> Card {
    Card::read_var(n)
}

fn lit_card(v: &OV) -> Card {
    match v {
        OV::Nil => c(CardBody::ScalarNil),
        OV::Int(i) => c(CardBody::ScalarInt(*i)),
        OV::Real(b) => c(CardBody::ScalarFloat(f64::from_bits(*b))),
        OV::Str(s) => c(CardBody::StringLiteral(String::from_utf8(s.clone()).unwrap())),
        _ => c(CardBody::CreateTable),
    }
}

fn gen_entries(rng: &mut Rng, big: bool) -> Vec<(OV, OV)> {
    if big {
        // long tables with few distinct values: many ties (stability of the sort, first optimum)
        let n = *rng.pick(&[24usize, 33, 48, 70]);
        let distinct = rng.range(2, 6);
        let mut es: Vec<(OV, OV)> = vec![];
        while es.len() < n {
            let k = OV::Int(rng.range(-3, 400));
            if es.iter().any(|(k2, _)| *k2 == k) {
                continue;
            }
            es.push((k, OV::Int(rng.range(0, distinct))));
        }
        return es;
    }
    let n = *rng.pick(&[0usize, 1, 2, 3, 4, 5, 8, 12]);
    let mut es: Vec<(OV, OV)> = vec![];
    let strings = rng.chance(1, 4);
    while es.len() < n {
        let k = match rng.below(5) {
            // keys with equal 32-bit hashes ("costarring"/"liquid", 46749629/344036725) and a key that
            // shares their home bucket in a small table ("b"): a lookup that trusts the hash alone
            // confuses them once one of them sits in its home bucket
            0 if rng.chance(1, 3) => OV::Str(rng.pick(&["b", "costarring", "liquid", "b", "liquid", "costarring"]).as_bytes().to_vec()),
            0 if rng.chance(1, 4) => OV::Int(*rng.pick(&[46749629i64, 344036725])),
            0 => OV::Str(format!("k{}", rng.below(20)).into_bytes()),
            1 => OV::Real((rng.range(1, 9) as f64 + 0.5).to_bits()),
            _ => OV::Int(rng.range(-3, 20)),
        };
        if es.iter().any(|(k2, _)| *k2 == k) {
            continue;
        }
        let v = if strings {
            OV::Str(rng.pick(&["", "a", "bb", "ccc", "bb"]).as_bytes().to_vec())
        } else {
            match rng.below(8) {
                0 => OV::Real((rng.range(-4, 4) as f64 * 0.5).to_bits()),
                1 => OV::Nil,
                // integers that differ by less than one f64 ulp must still be ordered exactly
                2 => OV::Int(*rng.pick(&[9007199254740993i64, 9007199254740992, 9007199254740994, i64::MAX, i64::MAX - 1, i64::MIN, i64::MIN + 1, -9007199254740993])),
                _ => OV::Int(rng.range(-3, 6)),
            }
        };
        es.push((k, v));
    }
    es
}

#[derive(Clone, Copy, Debug)]
enum Cb {
    VLess3,
    KEqFirst,
    I,
    NotV,
    VPlusI,
    K,
    VTimes2,
    Val,
    NegVal,
    Zero,
    LenVal,
}

fn cb_card(cb: Cb, first_key: &OV) -> Card {
    // filter/map/any callbacks are (i, v, k) -> declared [k, v, i] (reversed binding);
    // key functions are (key, val) -> declared [key, val] bound from pushed (value, key)
    let clos = |args: &[&str], body: Card| c(CardBody::Closure(Box::new(Function { arguments: args.iter().map(|s| s.to_string()).collect(), cards: vec![Card::return_card(body)] })));
    let b2 = |f: fn(Box<[Card; 2]>) -> CardBody, a: Card, b: Card| c(f(Box::new([a, b])));
    match cb {
        Cb::VLess3 => clos(&["k", "v", "i"], b2(CardBody::Less, rv("v"), c(CardBody::ScalarInt(3)))),
        Cb::KEqFirst => clos(&["k", "v", "i"], b2(CardBody::Equals, rv("k"), lit_card(first_key))),
        Cb::I => clos(&["k", "v", "i"], rv("i")),
        Cb::NotV => clos(&["k", "v", "i"], c(CardBody::Not(UnaryExpression::new(rv("v"))))),
        Cb::VPlusI => clos(&["k", "v", "i"], b2(CardBody::Add, rv("v"), rv("i"))),
        Cb::K => clos(&["k", "v", "i"], rv("k")),
        Cb::VTimes2 => clos(&["k", "v", "i"], b2(CardBody::Mul, rv("v"), c(CardBody::ScalarInt(2)))),
        Cb::Val => clos(&["key", "val"], rv("val")),
        Cb::NegVal => clos(&["key", "val"], b2(CardBody::Mul, rv("val"), c(CardBody::ScalarInt(-1)))),
        Cb::Zero => clos(&["key", "val"], c(CardBody::ScalarInt(0))),
        Cb::LenVal => clos(&["key", "val"], c(CardBody::Len(UnaryExpression::new(rv("val"))))),
    }
}

/// evaluate the callback on host values (spec side)
fn cb_eval(vm: &mut Vm<Vec<String>>, cb: Cb, i: i64, v: Value, k: Value, first_key: Value) -> Value {
    let _ = vm;
    match cb {
        Cb::VLess3 => (v < Value::Integer(3)).into(),
        Cb::KEqFirst => (k == first_key).into(),
        Cb::I => Value::Integer(i),
        Cb::NotV => (!v.as_bool()).into(),
        Cb::VPlusI => v + Value::Integer(i),
        Cb::K => k,
        Cb::VTimes2 => v * Value::Integer(2),
        Cb::Val => v,
        Cb::NegVal => v * Value::Integer(-1),
        Cb::Zero => Value::Integer(0),
        Cb::LenVal => match v {
            Value::Nil => Value::Integer(0),
            Value::Integer(_) | Value::Real(_) => Value::Integer(1),
            Value::Object(o) => Value::Integer(unsafe { o.as_ref().len() as i64 }),
        },
    }
}

fn table_tok(es: &[(OV, OV)]) -> String {
    OV::Table(es.to_vec()).tok()
}

pub struct StdEngine;

const FUNS: [&str; 10] = ["filter", "map", "any", "min", "max", "sorted", "min_by_key", "max_by_key", "sorted_by_key", "to_array"];

fn cb_name(cb: Cb) -> String {
    format!("{cb:?}")
}
fn cb_of(name: &str) -> Cb {
    match name {
        "VLess3" => Cb::VLess3,
        "KEqFirst" => Cb::KEqFirst,
        "I" => Cb::I,
        "NotV" => Cb::NotV,
        "VPlusI" => Cb::VPlusI,
        "K" => Cb::K,
        "VTimes2" => Cb::VTimes2,
        "Val" => Cb::Val,
        "NegVal" => Cb::NegVal,
        "Zero" => Cb::Zero,
        _ => Cb::LenVal,
    }
}

impl Engine for StdEngine {
    fn name(&self) -> &'static str {
        "std"
    }

    fn gen(&self, rng: &mut Rng, _tier: Tier, idx: usize) -> Vec<String> {
        let fun = FUNS[idx % FUNS.len()];
        let big = matches!(fun, "sorted" | "sorted_by_key" | "min" | "max" | "min_by_key" | "max_by_key") && rng.chance(1, 3);
        let es = gen_entries(rng, big);
        let non_table = rng.chance(1, 12);
        let cb = match fun {
            "filter" | "any" => *rng.pick(&[Cb::VLess3, Cb::KEqFirst, Cb::I, Cb::NotV]),
            "map" => *rng.pick(&[Cb::VPlusI, Cb::K, Cb::VTimes2, Cb::NotV]),
            "min_by_key" | "max_by_key" | "sorted_by_key" => *rng.pick(&[Cb::Val, Cb::NegVal, Cb::Zero, Cb::LenVal]),
            _ => Cb::Val,
        };
        let first_key = es.first().map(|e| e.0.clone()).unwrap_or(OV::Int(0));
        // main: build the table entry by entry, call, publish result and the input again
        let mut cards = vec![Card::set_var("t", c(CardBody::CreateTable))];
        for (k, v) in &es {
            cards.push(Card::set_property(lit_card(v), rv("t"), lit_card(k)));
        }
        if non_table {
            cards.push(Card::set_var("t", c(CardBody::ScalarInt(7))));
        }
        let call = match fun {
            "min" | "max" | "sorted" | "to_array" => Card::call_function(format!("std.{fun}"), vec![rv("t")]),
            _ => Card::call_function(format!("std.{fun}"), vec![cb_card(cb, &first_key), rv("t")]),
        };
        cards.push(Card::set_global_var("out", call));
        cards.push(Card::set_global_var("input", rv("t")));
        let m = Module { submodules: vec![], functions: vec![("main".into(), Function { arguments: vec![], cards })], imports: vec![] };
        vec![format!("nat call {} fun={fun} cb={} table={} nontable={non_table} budget=20000", module_tok(&m), cb_name(cb), table_tok(&es))]
    }

    fn run_impl(&self, ops: &[String], out: &mut Vec<String>) {
        for op in ops {
            let a: Vec<&str> = op.split(' ').collect();
            let line = match parse_module(a[2]) {
                None => "bad-op".to_string(),
                Some(module) => match compile(module, None) {
                    Err(e) => format!("compile-error:{}", crate::engines::compile::payload_name(&e.payload)),
                    Ok(prog) => {
                        let mut vm = new_vm(409600, 256, 256);
                        vm.max_instr = 20000;
                        let res = vm.run(&prog);
                        show_outcome(&vm, &prog, &res)
                    }
                },
            };
            out.push(line);
        }
    }

    fn run_spec(&self, ops: &[String], impl_out: &[String]) -> Option<Vec<String>> {
        let mut out = vec![];
        for (op, r) in ops.iter().zip(impl_out.iter()) {
            let a: Vec<&str> = op.split(' ').collect();
            let fun = a.iter().find_map(|x| x.strip_prefix("fun=")).unwrap_or("");
            let cb = cb_of(a.iter().find_map(|x| x.strip_prefix("cb=")).unwrap_or(""));
            let ttok = a.iter().find_map(|x| x.strip_prefix("table=")).unwrap_or("t[]");
            let non_table = a.iter().any(|x| *x == "nontable=true");
            let es = match OV::parse(ttok) {
                Some(OV::Table(es)) => es,
                _ => vec![],
            };
            let mut vm = new_vm(409600, 256, 256);
            let vals: Vec<(Value, Value)> = es.iter().map(|(k, v)| (build(&mut vm, k).unwrap(), build(&mut vm, v).unwrap())).collect();
            let first_key = vals.first().map(|e| e.0).unwrap_or(Value::Integer(0));
            let tok = |v: Value| read_back(v, 6).tok();
            let row = |k: Value, v: Value| format!("t[s6b6579:{},s76616c7565:{}]", tok(k), tok(v));
            let keyed: Vec<(Value, Value, Value)> = vals.iter().enumerate().map(|(i, (k, v))| (cb_eval(&mut vm, cb, i as i64, *v, *k, first_key), *k, *v)).collect();
            let expected_out: String = if non_table {
                match fun {
                    "filter" | "map" | "any" => "<error>".into(),
                    _ => "i7".into(),
                }
            } else {
                match fun {
                    "filter" => format!("t[{}]", keyed.iter().filter(|e| e.0.as_bool()).map(|e| format!("{}:{}", tok(e.1), tok(e.2))).collect::<Vec<_>>().join(",")),
                    "map" => format!("t[{}]", keyed.iter().map(|e| format!("{}:{}", tok(e.1), tok(e.0))).collect::<Vec<_>>().join(",")),
                    "any" => keyed.iter().find(|e| e.0.as_bool()).map(|e| tok(e.1)).unwrap_or("n".into()),
                    "to_array" => format!("t[{}]", vals.iter().enumerate().map(|(i, e)| format!("i{i}:{}", tok(e.1))).collect::<Vec<_>>().join(",")),
                    "min" | "max" | "min_by_key" | "max_by_key" => {
                        let by_value = fun == "min" || fun == "max";
                        let less = fun.starts_with("min");
                        let mut best: Option<(Value, Value, Value)> = None;
                        for e in &keyed {
                            let key = if by_value { e.2 } else { e.0 };
                            match best {
                                None => best = Some((key, e.1, e.2)),
                                Some(b) => {
                                    if if less { key < b.0 } else { key > b.0 } {
                                        best = Some((key, e.1, e.2));
                                    }
                                }
                            }
                        }
                        best.map(|b| row(b.1, b.2)).unwrap_or("n".into())
                    }
                    _ => {
                        // sorted / sorted_by_key: stable, ascending; incomparable = equal
                        let by_value = fun == "sorted";
                        let mut v: Vec<(Value, Value, Value)> = keyed.iter().map(|e| (if by_value { e.2 } else { e.0 }, e.1, e.2)).collect();
                        // insertion sort = a stable sort that is well defined for any comparator
                        let n = v.len();
                        let mut total = true;
                        for i in 0..n {
                            for j in 0..n {
                                for k in 0..n {
                                    let le = |x: usize, y: usize| v[x].0.partial_cmp(&v[y].0).map(|o| o != std::cmp::Ordering::Greater).unwrap_or(true);
                                    if le(i, j) && le(j, k) && !le(i, k) {
                                        total = false;
                                    }
                                }
                            }
                        }
                        if !total {
                            "?".into()
                        } else {
                            for i in 1..n {
                                let mut j = i;
                                while j > 0 && v[j - 1].0.partial_cmp(&v[j].0) == Some(std::cmp::Ordering::Greater) {
                                    v.swap(j - 1, j);
                                    j -= 1;
                                }
                            }
                            format!("t[{}]", v.iter().map(|e| format!("{}:{}", tok(e.1), tok(e.2))).collect::<Vec<_>>().join(","))
                        }
                    }
                }
            };
            // read the observation
            let get = |name: &str| -> String {
                r.split(&format!("{name}=")).nth(1).map(|x| {
                    let mut depth = 0i32;
                    let mut end = x.len();
                    for (i, ch) in x.char_indices() {
                        match ch {
                            '[' => depth += 1,
                            ']' if depth == 0 => { end = i; break; }
                            ']' => depth -= 1,
                            ',' if depth == 0 => { end = i; break; }
                            _ => {}
                        }
                    }
                    x[..end].to_string()
                }).unwrap_or("<unset>".into())
            };
            let ok = if expected_out == "?" {
                true
            } else if expected_out == "<error>" {
                r.starts_with("err:InvalidArgument")
            } else {
                let got = get("out");
                let got = if got == "<unset>" { "n".to_string() } else { got };
                let input_ok = non_table || get("input") == ttok;
                r.starts_with("ok") && got == expected_out && input_ok
            };
            out.push(if ok { r.clone() } else { format!("std.{fun} expected out={expected_out} with the input unchanged") });
        }
        Some(out)
    }

    fn tags(&self, ops: &[String], impl_out: &[String]) -> Vec<String> {
        let mut t = std::collections::BTreeSet::new();
        for (o, r) in ops.iter().zip(impl_out.iter()) {
            for k in ["fun=", "cb="] {
                if let Some(v) = o.split(' ').find_map(|x| x.strip_prefix(k)) {
                    t.insert(format!("{k}{v}"));
                }
            }
            t.insert(r.split(' ').next().unwrap_or("").to_string());
            if o.contains("nontable=true") {
                t.insert("non-table-input".into());
            }
            if o.contains("table=t[]") {
                t.insert("empty-table".into());
            }
        }
        t.into_iter().collect()
    }
    fn nontrivial(&self, ops: &[String], _o: &[String]) -> bool {
        !ops.iter().any(|o| o.contains("table=t[] "))
    }
    fn shrink_keep_prefix(&self, _ops: &[String]) -> usize {
        0
    }
}
