//! Engine `cmp`: the real compiler vs the Lean compiler model, byte for byte.
use crate::cards::*;
use crate::framework::{Engine, Tier};
use crate::progs::*;
use crate::rng::Rng;
use cao_lang::prelude::*;
use cao_lang::compiler::Card;

fn hexb(b: &[u8]) -> String {
    b.iter().map(|x| format!("{x:02x}")).collect()
}

pub fn show_trace(t: &Trace) -> String {
    let ns: Vec<String> = t.namespace.iter().map(|s| s.to_string()).collect();
    let mut s = format!("{}|{}", ns.join("."), t.index.function);
    for i in t.index.card_index.indices.iter() {
        s.push_str(&format!(".{i}"));
    }
    s
}

pub fn payload_name<T: std::fmt::Debug>(p: &T) -> String {
    let s = format!("{p:?}");
    s.split(|c: char| !c.is_alphanumeric()).next().unwrap_or("").to_string()
}

pub fn show_program(p: &CaoCompiledProgram) -> String {
    let mut labels: Vec<(u32, u32)> = p.labels.0.iter().map(|(h, l)| (h.value(), l.pos)).collect();
    labels.sort();
    let mut ids: Vec<(u32, String)> = p.variables.ids.iter().map(|(h, v)| (h.value(), format!("{v:?}"))).collect();
    ids.sort();
    let mut names: Vec<(u32, String)> = p.variables.names.iter().map(|(h, v)| (h.value(), hex(v))).collect();
    names.sort();
    let mut trace: Vec<(u32, String)> = p.trace.iter().map(|(k, t)| (*k, show_trace(t))).collect();
    trace.sort();
    let id_num = |s: &str| s.trim_start_matches("VariableId(").trim_end_matches(')').to_string();
    format!(
        "ok bc={} data={} labels=[{}] ids=[{}] names=[{}] trace=[{}]",
        hexb(&p.bytecode),
        hexb(&p.data),
        labels.iter().map(|(h, x)| format!("{h}:{x}")).collect::<Vec<_>>().join(","),
        ids.iter().map(|(h, x)| format!("{h}:{}", id_num(x))).collect::<Vec<_>>().join(","),
        names.iter().map(|(h, x)| format!("{h}:{x}")).collect::<Vec<_>>().join(","),
        trace.iter().map(|(h, x)| format!("{h}:{x}")).collect::<Vec<_>>().join(","),
    )
}

pub fn show_cerr(e: &CompilationError) -> String {
    format!(
        "err:{}@{}",
        payload_name(&e.payload),
        e.loc.as_ref().map(show_trace).unwrap_or("-".into())
    )
}

/// globals whose first appearance is nested inside the value of another new global, or only in
/// a function compiled later
pub fn add_nested_globals(m: &mut cao_lang::compiler::Module, rng: &mut Rng) {
    if let Some((_, f)) = m.functions.iter_mut().find(|(n, _)| n == "main") {
        let k = rng.range(0, 99);
        f.cards.insert(0, Card::set_global_var(format!("ga{k}"), crate::progs::read(&format!("gb{k}"))));
        f.cards.push(Card::set_global_var(format!("gc{k}"), Card::set_global_var(format!("gd{k}"), crate::progs::int(1))));
    }
    if let Some((_, f)) = m.functions.last_mut() {
        let k = rng.range(100, 199);
        f.cards.push(Card::set_global_var(format!("gb{k}"), crate::progs::read(&format!("ge{k}"))));
    }
}

/// Engine `wf`: the Lean well-formedness checker applied to the bytes the REAL compiler emitted
/// (compiled while the case is generated), independent of the compiler model.
pub struct WfEngine;

impl Engine for WfEngine {
    fn name(&self) -> &'static str {
        "wf"
    }
    fn gen(&self, rng: &mut Rng, tier: Tier, idx: usize) -> Vec<String> {
        for _ in 0..20 {
            let size = if tier == Tier::Quick { rng.range(1, 6) } else { rng.range(1, 10) } as usize;
            let mut m = gen_program(rng, &GenOpts { size, with_submodules: idx % 2 == 0 });
            if idx % 3 == 1 {
                add_nested_globals(&mut m, rng);
            }
            if let Ok(p) = compile(m, None) {
                return vec![format!("cmp wfprog {}", show_program(&p))];
            }
        }
        vec!["cmp wf mod([],[],[])".into()]
    }
    /// hand-written programs whose encodings contain opcode-valued operand bytes, suffix-related
    /// string literals and empty bodies, compiled by the real compiler when the corpus is built
    fn corpus(&self) -> Vec<Vec<String>> {
        let srcs = [
            // conditions ending in an operand byte that equals an opcode (0x1B = Not, 0x2E)
            "mod([],[fn($6d61696e,[],[iftrue(int(#1945555039024054272),setglobal($67,int(#1))),while(int(#3314649325744685056),abort),ifelse(less(int(#1),int(#1945555039024054272)),setglobal($67,int(#2)),setglobal($67,int(#3)))])],[])",
            // string literals that are suffixes / prefixes of the previous one, empty strings, non-ASCII
            "mod([],[fn($6d61696e,[],[setglobal($61,str($666f6f626172)),setglobal($62,str($626172)),setglobal($63,str($)),setglobal($64,str($636166c3a9)),setglobal($65,str($c3a9)),setglobal($66,str($626172)),setglobal($68,readvar($636667)),setglobal($69,str($666f6f))])],[])",
            // empty bodies, a loop as the last card of a function, nested closures capturing 2+ variables
            "mod([],[fn($6d61696e,[],[setvar($61,int(#1)),setvar($62,int(#2)),setvar($63,int(#3)),setglobal($67,closure([],[return(closure([],[return(add(readvar($63),add(readvar($61),readvar($62))))]))])),repeat(?,int(#0),composite($5f,[]))]),fn($66,[],[while(int(#0),composite($5f,[]))])],[])",
        ];
        srcs.iter()
            .filter_map(|t| parse_module(t))
            .filter_map(|m| compile(m, None).ok())
            .map(|p| vec![format!("cmp wfprog {}", show_program(&p))])
            .collect()
    }
    fn run_impl(&self, ops: &[String], out: &mut Vec<String>) {
        CmpEngine.run_impl(ops, out)
    }
    fn tags(&self, _ops: &[String], impl_out: &[String]) -> Vec<String> {
        impl_out.iter().map(|r| r.split(' ').next().unwrap_or("").to_string()).collect()
    }
    fn nontrivial(&self, ops: &[String], _o: &[String]) -> bool {
        ops.iter().any(|o| o.len() > 400)
    }
    fn shrink_keep_prefix(&self, _ops: &[String]) -> usize {
        0
    }
}

pub struct CmpEngine;

impl Engine for CmpEngine {
    fn name(&self) -> &'static str {
        "cmp"
    }

    fn gen(&self, rng: &mut Rng, tier: Tier, idx: usize) -> Vec<String> {
        let m = if idx % 4 == 3 {
            gen_malformed(rng)
        } else {
            let size = if tier == Tier::Quick { rng.range(1, 6) } else { rng.range(1, 10) } as usize;
            gen_program(rng, &GenOpts { size, with_submodules: idx % 2 == 0 })
        };
        let mut m = m;
        if idx % 3 == 1 {
            add_nested_globals(&mut m, rng);
        }
        let t = module_tok(&m);
        vec![format!("cmp compile {t}"), format!("cmp wf {t}")]
    }

    fn corpus(&self) -> Vec<Vec<String>> {
        let mk = |cards: &str| vec![format!("cmp compile mod([],[fn($6d61696e,[],[{cards}])],[])")];
        vec![
            mk("setglobal($67,add(int(#1),int(#2)))"),
            mk("setvar($78,int(#1)),repeat($69,int(#3),composite($5f,[setvar($78,add(readvar($78),readvar($69)))])),setglobal($67,readvar($78))"),
            mk("setvar($74,array([int(#1),int(#2)])),foreach($69,$6b,$76,readvar($74),composite($5f,[setglobal($67,readvar($76))]))"),
            mk("setvar($78,int(#5)),setvar($66,closure([$61],[return(add(readvar($61),readvar($78)))])),setglobal($67,dyncall([int(#1)],readvar($66)))"),
            mk("ifelse(int(#1),setglobal($61,int(#1)),setglobal($61,int(#2))),while(int(#0),comment($78)),iftrue(nil,abort),iffalse(nil,comment($79))"),
            // capture limit: 255 locals of main captured through a middle closure plus one of its
            // own locals = 256 captured variables (TooManyUpvalues, never a panic); 255 is fine
            {
                let hx = |s: &str| format!("${}", s.bytes().map(|b| format!("{b:02x}")).collect::<String>());
                let mk = |n: usize| {
                    let mut cards: Vec<String> = (0..n).map(|i| format!("setvar({},int(#{i}))", hx(&format!("v{i}")))).collect();
                    let mut reads = "int(#0)".to_string();
                    for i in 0..n {
                        reads = format!("add({reads},readvar({}))", hx(&format!("v{i}")));
                    }
                    let inner = format!("closure([],[return(add({reads},readvar({})))])", hx("y"));
                    cards.push(format!("setglobal({},closure([],[setvar({},int(#1)),return({inner})]))", hx("g"), hx("y")));
                    format!("cmp compile mod([],[fn($6d61696e,[],[{}])],[])", cards.join(","))
                };
                vec![mk(255), mk(254)]
            },
            // two root functions whose names have the same 32-bit hash (`liquid`, `costarring`) in the
            // name → function map while it grows (0-16 filler functions move the growth step across
            // them); a submodule has its own `liquid`: the call from there must still take the root one
            {
                let hx = |s: &str| format!("${}", s.bytes().map(|b| format!("{b:02x}")).collect::<String>());
                let mut ops = vec![];
                for k in 0..17 {
                    let mut fns = vec![];
                    for i in 0..k {
                        fns.push(format!("fn({},[],[return(int(#{i}))])", hx(&format!("filler{i}"))));
                    }
                    fns.push(format!("fn({},[],[return(int(#10))])", hx("liquid")));
                    fns.push(format!("fn({},[],[return(int(#20))])", hx("costarring")));
                    fns.push(format!("fn($6d61696e,[],[setglobal({},call({},[])),setglobal({},call({},[]))])", hx("first"), hx("m.go"), hx("second"), hx("costarring")));
                    let sub = format!("sub({},mod([],[fn({},[],[return(int(#110))]),fn({},[],[return(call({},[]))])],[]))", hx("m"), hx("liquid"), hx("go"), hx("liquid"));
                    ops.push(format!("cmp compile mod([],[{}],[{sub}])", fns.join(",")));
                }
                ops
            },
            // a module-prefix import through `super.` (repaired: it never resolved)
            vec!["cmp compile mod([],[fn($6d61696e,[],[setglobal($67,call($6c69622e696e6e65722e72,[]))])],[sub($6c6962,mod([],[],[sub($696e6e6572,mod([$73757065722e736962],[fn($72,[],[return(call($7369622e71,[]))])],[])),sub($736962,mod([],[fn($71,[],[return(int(#7))])],[]))]))])".to_string()],
            // known finding K3: a reference to the entry function compiles, but `main` has no label
            vec!["cmp wf mod([],[fn($6d61696e,[],[setglobal($67,function($6d61696e))])],[])".to_string()],
            vec!["cmp wf mod([],[fn($6d61696e,[],[setglobal($67,int(#1))]),fn($66,[],[return(call($6d61696e,[]))])],[])".to_string()],
        ]
    }

    fn run_impl(&self, ops: &[String], out: &mut Vec<String>) {
        for op in ops {
            let a: Vec<&str> = op.split(' ').collect();
            let line = match a.as_slice() {
                ["cmp", "compile", m] => match parse_module(m) {
                    None => "bad-op".to_string(),
                    Some(m) => match compile(m, None) {
                        Ok(p) => show_program(&p),
                        Err(e) => show_cerr(&e),
                    },
                },
                // expectation: every program the compiler returns is well-formed; the crate's own
                // disassembler serves as an independent decoder (instruction count)
                ["cmp", "wf", m] => match parse_module(m) {
                    None => "bad-op".to_string(),
                    Some(m) => match compile(m, None) {
                        Ok(p) => format!("wf:ok n={} cap=true", p.disassemble_string().lines().count()),
                        Err(_) => "wf:n/a".into(),
                    },
                },
                ["cmp", "wfprog", "ok", ..] => {
                    // the program text was produced by the real compiler at generation time
                    let bc = a.iter().find_map(|x| x.strip_prefix("bc=")).unwrap_or("");
                    let bytes: Vec<u8> = (0..bc.len() / 2).map(|i| u8::from_str_radix(&bc[2 * i..2 * i + 2], 16).unwrap()).collect();
                    let p = CaoCompiledProgram { bytecode: bytes, ..Default::default() };
                    format!("wf:ok n={} cap=true", p.disassemble_string().lines().count())
                }
                _ => "bad-op".into(),
            };
            out.push(line);
        }
    }

    /// C04: compile() returns a program or a compilation error — a panic, abort or hang of the real
    /// compiler is a violation whatever the model says
    fn run_spec(&self, _ops: &[String], impl_out: &[String]) -> Option<Vec<String>> {
        Some(impl_out.iter().map(|r| if r == "panic" || r == "crash" || r == "hang" { "a compiled program or a compilation error (no panic, abort or hang)".to_string() } else { "?".to_string() }).collect())
    }

    fn tags(&self, ops: &[String], impl_out: &[String]) -> Vec<String> {
        let mut t = std::collections::BTreeSet::new();
        for (o, r) in ops.iter().zip(impl_out.iter()) {
            if r.starts_with("ok") {
                t.insert("compile:ok".to_string());
            } else {
                t.insert(format!("compile:{}", r.split('@').next().unwrap_or("")));
            }
            for k in ["closure(", "foreach(", "repeat(", "while(", "ifelse(", "dyncall(", "call(", "callnative(", "array(", "sub(", "function("] {
                if o.contains(k) {
                    t.insert(format!("has:{}", k.trim_end_matches('(')));
                }
            }
        }
        t.into_iter().collect()
    }

    fn nontrivial(&self, ops: &[String], _o: &[String]) -> bool {
        ops.iter().any(|o| o.len() > 120)
    }

    fn shrink_keep_prefix(&self, _ops: &[String]) -> usize {
        0
    }
}
