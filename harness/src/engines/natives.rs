//! Engine `nat` (C18): host functions receive the supplied arguments in declaration order through
//! every call path, conversions fail with InvalidArgument wrapped in TaskFailure(name), results
//! come back as the value of the call, reserved names are refused, and re-entry through
//! `run_function` hands the callee's result back.
use crate::cards::*;
use crate::engines::vm::{new_vm, show_outcome};
use crate::framework::{Engine, Tier};
use crate::rng::Rng;
use cao_lang::compiler::{Card, CardBody, Function, Module};
use cao_lang::prelude::*;

fn c(b: CardBody) -> Card {
    b.into()
}

/// literal argument cards with the token the host is expected to see
fn lit(rng: &mut Rng) -> (Card, String) {
    match rng.below(6) {
        0 => (c(CardBody::ScalarNil), "n".into()),
        1 => {
            let f = *rng.pick(&[0.5f64, -1.5, 3.0]);
            (c(CardBody::ScalarFloat(f)), format!("r{:016x}", f.to_bits()))
        }
        2 => {
            let s = *rng.pick(&["", "a", "héllo", "key"]);
            (c(CardBody::StringLiteral(s.to_string())), format!("s{}", s.bytes().map(|b| format!("{b:02x}")).collect::<String>()))
        }
        3 => (c(CardBody::CreateTable), "t[]".into()),
        _ => {
            let i = rng.range(-50, 50);
            (c(CardBody::ScalarInt(i)), format!("i{i}"))
        }
    }
}

fn as_i64(tok: &str) -> i64 {
    // TryFrom<Value> for i64
    match tok.as_bytes()[0] {
        b'i' => tok[1..].parse().unwrap(),
        b'r' => f64::from_bits(u64::from_str_radix(&tok[1..], 16).unwrap()) as i64,
        b's' => ((tok.len() - 1) / 2) as i64,
        _ => 0,
    }
}

pub struct NatEngine;

fn program(cards: Vec<Card>, extra: Vec<(String, Function)>) -> Module {
    let mut functions = vec![("main".to_string(), Function { arguments: vec![], cards })];
    functions.extend(extra);
    Module { submodules: vec![], functions, imports: vec![] }
}

impl Engine for NatEngine {
    fn name(&self) -> &'static str {
        "nat"
    }

    fn gen(&self, rng: &mut Rng, _tier: Tier, idx: usize) -> Vec<String> {
        if idx % 10 == 9 {
            return vec![format!("nat register {}", rng.pick(&["__x", "__sort", "_ok", "fine", "__"]))];
        }
        let (name, n): (&str, usize) = *rng.pick(&[("log", 1), ("sum2", 2), ("three", 3), ("four", 4), ("strlen", 1), ("fail", 0), ("mktable", 1), ("callback", 2), ("callback", 2), ("papply", 1), ("nosuchnative", 1), ("typed3", 3), ("typed3", 3)]);
        let mut cards_args = vec![];
        let mut toks = vec![];
        for _ in 0..n {
            let (cd, t) = lit(rng);
            cards_args.push(cd);
            toks.push(t);
        }
        let mut extra = vec![];
        if name == "typed3" {
            // (string, int, string): at most one argument of the wrong kind, at any position
            let good: [(Card, String); 3] = [
                (c(CardBody::StringLiteral("ab".into())), "s6162".into()),
                (c(CardBody::ScalarInt(7)), "i7".into()),
                (c(CardBody::StringLiteral("z".into())), "s7a".into()),
            ];
            for (i, (cd, t)) in good.into_iter().enumerate() {
                cards_args[i] = cd;
                toks[i] = t;
            }
            match rng.below(5) {
                0 => { cards_args[0] = c(CardBody::ScalarInt(3)); toks[0] = "i3".into(); }
                1 => { cards_args[2] = c(CardBody::CreateTable); toks[2] = "t[]".into(); }
                2 => { cards_args[0] = c(CardBody::ScalarNil); toks[0] = "n".into(); }
                3 => { cards_args[2] = c(CardBody::ScalarFloat(0.5)); toks[2] = "r3fe0000000000000".into(); }
                _ => {}
            }
        }
        if name == "callback" {
            // callback(f, x): f is a script function / closure / native value
            let (f, ftok): (Card, String) = match rng.below(6) {
                // host functions that fail, called by a host function: both names must be reported
                3 => (c(CardBody::NativeFunction("fail".into())), "nativefail".into()),
                4 => (c(CardBody::NativeFunction("strlen".into())), "nativestrlen".into()),
                5 => (c(CardBody::Closure(Box::new(Function { arguments: vec!["p".into()], cards: vec![Card::return_card(Card::call_native("strlen", vec![c(CardBody::ScalarInt(3))]))] }))), "closurefails".into()),
                0 => {
                    extra.push(("echo".to_string(), Function { arguments: vec!["p".into()], cards: vec![Card::return_card(Card::read_var("p"))] }));
                    (c(CardBody::Function("echo".into())), "echo".into())
                }
                1 => (c(CardBody::Closure(Box::new(Function { arguments: vec!["p".into()], cards: vec![Card::set_global_var("seen", Card::read_var("p")), Card::return_card(c(CardBody::ScalarInt(77)))] }))), "closure77".into()),
                _ => (c(CardBody::NativeFunction("log".into())), "nativelog".into()),
            };
            cards_args[0] = f;
            toks[0] = ftok;
        }
        if name == "papply" {
            // papply(f): f takes no parameters; at the first card of main nothing else is on the stack
            let (f, ftok): (Card, String) = match rng.below(4) {
                0 => {
                    extra.push(("zero".to_string(), Function { arguments: vec![], cards: vec![Card::return_card(c(CardBody::ScalarInt(5)))] }));
                    (c(CardBody::Function("zero".into())), "zero".into())
                }
                1 => (c(CardBody::Closure(Box::new(Function { arguments: vec![], cards: vec![Card::set_global_var("seen", c(CardBody::ScalarInt(1))), Card::return_card(c(CardBody::ScalarInt(78)))] }))), "closure78".into()),
                2 => (c(CardBody::NativeFunction("fail".into())), "nativefail".into()),
                _ => (c(CardBody::ScalarInt(3)), "notafunction".into()),
            };
            cards_args[0] = f;
            toks[0] = ftok;
        }
        let depth = rng.range(0, 2);
        let call: Card = match rng.below(3) {
            0 => Card::call_native(name, cards_args),
            1 => Card::dynamic_call(c(CardBody::NativeFunction(name.to_string())), cards_args),
            _ => {
                // through a script wrapper function (arguments forwarded in order)
                let params: Vec<String> = (0..n).map(|i| format!("p{i}")).collect();
                // reversed binding: forward so that the native sees the original order
                let fwd: Vec<Card> = params.iter().rev().map(|p| Card::read_var(p.as_str())).collect();
                extra.push(("wrap".to_string(), Function { arguments: params, cards: vec![Card::return_card(Card::call_native(name, fwd))] }));
                Card::call_function("wrap", cards_args)
            }
        };
        let mut stmt = Card::set_global_var("result", call);
        for d in 0..depth {
            extra.push((format!("d{d}"), Function { arguments: vec![], cards: vec![stmt, Card::set_global_var(format!("after{d}"), c(CardBody::ScalarInt(1)))] }));
            stmt = Card::set_global_var(format!("r{d}"), Card::call_function(format!("d{d}"), vec![]));
        }
        let m = program(vec![Card::set_global_var("before", c(CardBody::ScalarInt(1))), stmt, Card::set_global_var("after", c(CardBody::ScalarInt(2)))], extra);
        vec![format!("nat call {} name={name} args={}", module_tok(&m), toks.join(";"))]
    }

    fn run_impl(&self, ops: &[String], out: &mut Vec<String>) {
        for op in ops {
            let a: Vec<&str> = op.split(' ').collect();
            let line = match a.as_slice() {
                ["nat", "register", name] => {
                    let mut vm = new_vm(409600, 256, 256);
                    fn f(_vm: &mut Vm<Vec<String>>) -> Result<Value, ExecutionErrorPayload> {
                        Ok(Value::Nil)
                    }
                    match vm.register_native_function(*name, f) {
                        Ok(()) => "ok".to_string(),
                        Err(e) => format!("err:{}", crate::engines::compile::payload_name(&e)),
                    }
                }
                ["nat", "call", m, ..] => match parse_module(m) {
                    None => "bad-op".to_string(),
                    Some(module) => match compile(module, None) {
                        Err(e) => format!("compile-error:{}", crate::engines::compile::payload_name(&e.payload)),
                        Ok(prog) => {
                            let mut vm = new_vm(409600, 256, 256);
                            vm.max_instr = 5000;
                            let res = vm.run(&prog);
                            // the parameter number a conversion error names
                            fn argno(e: &ExecutionErrorPayload) -> Option<String> {
                                match e {
                                    ExecutionErrorPayload::TaskFailure { error, .. } => argno(error),
                                    ExecutionErrorPayload::InvalidArgument { context: Some(c) } => c.split("input #").nth(1).and_then(|x| x.split(':').next()).map(|x| x.to_string()),
                                    _ => None,
                                }
                            }
                            let no = res.as_ref().err().and_then(|e| argno(&e.payload)).map(|n| format!(" argno={n}")).unwrap_or_default();
                            format!("{}{no}", show_outcome(&vm, &prog, &res))
                        }
                    },
                },
                _ => "bad-op".into(),
            };
            out.push(line);
        }
    }

    fn run_spec(&self, ops: &[String], impl_out: &[String]) -> Option<Vec<String>> {
        let mut out = vec![];
        for (op, r) in ops.iter().zip(impl_out.iter()) {
            let a: Vec<&str> = op.split(' ').collect();
            if a[1] == "register" {
                out.push(if a[2].starts_with("__") { "err:InvalidArgument".to_string() } else { "ok".into() });
                continue;
            }
            let name = a.iter().find_map(|x| x.strip_prefix("name=")).unwrap_or("");
            let args: Vec<&str> = a.iter().find_map(|x| x.strip_prefix("args=")).unwrap_or("").split(';').filter(|x| !x.is_empty()).collect();
            let log = r.split(" log=[").nth(1).and_then(|x| x.split("] alloc=").next()).unwrap_or("");
            let result = r
                .split("result=")
                .nth(1)
                .map(|x| {
                    // one token: up to the first `,` or `]` at bracket depth 0
                    let mut depth = 0i32;
                    let mut end = x.len();
                    for (i, ch) in x.char_indices() {
                        match ch {
                            '[' => depth += 1,
                            ']' if depth == 0 => {
                                end = i;
                                break;
                            }
                            ']' => depth -= 1,
                            ',' if depth == 0 => {
                                end = i;
                                break;
                            }
                            _ => {}
                        }
                    }
                    &x[..end]
                })
                .unwrap_or("<none>");
            let after_set = r.contains("after=i2");
            let expect_err = |k: &str| r.starts_with(&format!("err:TaskFailure({name}):{k}")) && !after_set;
            let ok = match name {
                "log" => r.starts_with("ok") && log == format!("log {}", args[0]) && after_set,
                "sum2" => {
                    let (x, y) = (as_i64(args[0]), as_i64(args[1]));
                    r.starts_with("ok") && log == format!("sum2 {x} {y}") && result == format!("i{}", x.wrapping_add(y))
                }
                "three" => r.starts_with("ok") && log == format!("three {} {} {}", args[0], args[1], args[2]) && (result == args[0] || (args[0] == "n" && result == "<none>") || args[0] == "n"),
                "four" => r.starts_with("ok") && log == format!("four {} {} {} {}", args[0], args[1], args[2], args[3]),
                "strlen" => {
                    if args[0].starts_with('s') {
                        r.starts_with("ok") && result == format!("i{}", (args[0].len() - 1) / 2)
                    } else {
                        expect_err("InvalidArgument")
                    }
                }
                "fail" => expect_err("InvalidArgument"),
                "mktable" => r.starts_with("ok") && result == format!("t[s6e:{}]", args[0]),
                "callback" => match args[0] {
                    "echo" => r.starts_with("ok") && log == format!("callback -> {}", args[1]),
                    "closure77" => r.starts_with("ok") && log == "callback -> i77" && (args[1] == "n" || r.contains(&format!("seen={}", args[1]))),
                    // an error returned by the inner host function carries both names, outermost first
                    "nativefail" => r.starts_with("err:TaskFailure(callback):TaskFailure(fail):InvalidArgument") && !after_set,
                    "nativestrlen" => {
                        if args[1].starts_with('s') {
                            r.starts_with("ok") && log == format!("callback -> i{}", (args[1].len() - 1) / 2)
                        } else {
                            r.starts_with("err:TaskFailure(callback):TaskFailure(strlen):InvalidArgument") && !after_set
                        }
                    }
                    "closurefails" => r.starts_with("err:TaskFailure(callback):TaskFailure(strlen):InvalidArgument") && !after_set,
                    _ => r.starts_with("ok") && log == format!("log {}|callback -> n", args[1]),
                },
                "nosuchnative" => r.starts_with("err:ProcedureNotFound") && !after_set,
                "typed3" => {
                    let bad = if !args[0].starts_with('s') { Some(1) } else if !args[2].starts_with('s') { Some(3) } else { None };
                    match bad {
                        None => r.starts_with("ok") && log == "typed3 ab 7 z" && result == "i7",
                        Some(k) => r.starts_with("err:TaskFailure(typed3):InvalidArgument") && r.ends_with(&format!(" argno={k}")) && !after_set,
                    }
                }
                "papply" => match args[0] {
                    "zero" => r.starts_with("ok") && log == "papply -> i5" && result == "i5",
                    "closure78" => r.starts_with("ok") && log == "papply -> i78" && result == "i78" && r.contains("seen=i1"),
                    "nativefail" => r.starts_with("err:TaskFailure(papply):TaskFailure(fail):InvalidArgument") && !after_set,
                    _ => r.starts_with("err:TaskFailure(papply):InvalidArgument") && !after_set,
                },
                _ => false,
            };
            // and the value stack / call stack are balanced after a successful run
            let balanced = !r.starts_with("ok") || (r.contains(" frames=0 ") && r.contains(" stack=0 "));
            out.push(if ok && balanced { r.clone() } else { format!("host function {name} did not observe args {:?} / result / error as specified", args) });
        }
        Some(out)
    }

    /// the model's InvalidArgument carries no parameter number: ` argno=N` is checked by the oracle only
    fn model_equiv(&self, _op: &str, impl_line: &str, model_line: &str) -> bool {
        let stripped = match impl_line.rfind(" argno=") {
            Some(p) => &impl_line[..p],
            None => impl_line,
        };
        stripped == model_line
    }

    fn tags(&self, ops: &[String], impl_out: &[String]) -> Vec<String> {
        let mut t = std::collections::BTreeSet::new();
        for (o, r) in ops.iter().zip(impl_out.iter()) {
            if let Some(n) = o.split(' ').find_map(|x| x.strip_prefix("name=")) {
                t.insert(format!("native:{n}"));
            }
            t.insert(r.split(' ').next().unwrap_or("").split('(').next().unwrap_or("").to_string());
            for k in ["callnative(", "dyncall(", "call($77726170"] {
                if o.contains(k) {
                    t.insert(format!("path:{}", k.trim_end_matches('(')));
                }
            }
        }
        t.into_iter().collect()
    }
    fn nontrivial(&self, _ops: &[String], _o: &[String]) -> bool {
        true
    }
    fn shrink_keep_prefix(&self, _ops: &[String]) -> usize {
        0
    }
}
