//! Engines `stack` (ValueStack) and `bstack` (BoundedStack<T> with a drop-logging T).
use crate::framework::{Engine, Tier};
use crate::rng::Rng;
use cao_lang::collections::bounded_stack::BoundedStack;
use cao_lang::collections::value_stack::{StackError, ValueStack};
use cao_lang::value::Value;
use std::cell::RefCell;
use std::rc::Rc;

pub fn val_tok(v: Value) -> String {
    match v {
        Value::Nil => "n".into(),
        Value::Integer(i) => format!("i{i}"),
        Value::Real(r) => format!("r{:016x}", r.to_bits()),
        Value::Object(p) => format!("o{:x}", p.as_ptr() as usize),
    }
}

pub fn tok_val(s: &str) -> Option<Value> {
    let (h, t) = s.split_at(1);
    match h {
        "n" if t.is_empty() => Some(Value::Nil),
        "i" => t.parse::<i64>().ok().map(Value::Integer),
        "r" => u64::from_str_radix(t, 16).ok().map(|b| Value::Real(f64::from_bits(b))),
        _ => None,
    }
}

fn show_vals(vs: impl Iterator<Item = Value>) -> String {
    format!("[{}]", vs.map(val_tok).collect::<Vec<_>>().join(" "))
}

pub struct StackEngine;

fn args(op: &str) -> Vec<&str> {
    op.split(' ').skip(1).collect()
}

impl Engine for StackEngine {
    fn name(&self) -> &'static str {
        "stack"
    }

    fn gen(&self, rng: &mut Rng, tier: Tier, _idx: usize) -> Vec<String> {
        let cap = if rng.chance(1, 6) { 256 } else { rng.range(1, 8) as usize };
        let n = match tier {
            Tier::Quick => rng.range(10, 80),
            Tier::Thorough => rng.range(10, 200),
        };
        let mut ops = vec![format!("stack new {cap}")];
        let mut h: usize = 0; // approximate height to steer indices around count
        let stale = rng.chance(1, 5); // stream that also exercises clear_until above the height
        for _ in 0..n {
            let k = rng.weighted(&[30, 14, 8, 5, 8, 6, 4, 4, 2, 6, 6, 3]);
            let near = |rng: &mut Rng, h: usize| -> usize {
                let lo = h.saturating_sub(2) as i64;
                rng.range(lo, h as i64 + 2) as usize
            };
            match k {
                0 => {
                    let v = match rng.below(10) {
                        0 => "n".to_string(),
                        1 => format!("r{:016x}", (rng.range(-3, 3) as f64 * 0.5).to_bits()),
                        _ => format!("i{}", rng.range(-5, 99)),
                    };
                    ops.push(format!("stack push {v}"));
                    if h + 1 < cap {
                        h += 1;
                    }
                }
                1 => {
                    ops.push("stack pop".into());
                    h = h.saturating_sub(1);
                }
                2 => {
                    let n = *rng.pick(&[1usize, 2, 3, 8]);
                    ops.push(format!("stack pop_n {n}"));
                    h = h.saturating_sub(n);
                }
                3 => {
                    let o = near(rng, h);
                    ops.push(format!("stack pop_w_offset {o}"));
                    if h > o {
                        h -= 1;
                    }
                }
                4 => {
                    let i = near(rng, h);
                    ops.push(format!("stack set {i} i{}", rng.range(100, 199)));
                    if i == h && h + 1 < cap {
                        h += 1;
                    }
                }
                5 => ops.push(format!("stack get {}", near(rng, h))),
                6 => ops.push("stack last".into()),
                7 => ops.push(format!("stack peek_last {}", rng.range(0, 3))),
                8 => {
                    ops.push("stack clear".into());
                    h = 0;
                }
                9 => {
                    let t = if stale && rng.chance(1, 3) {
                        (h + rng.range(1, 2) as usize).min(cap - 1)
                    } else {
                        rng.range(0, h as i64) as usize
                    };
                    ops.push(format!("stack clear_until {t}"));
                    h = t;
                }
                10 => ops.push("stack contents".into()),
                _ => ops.push("stack len".into()),
            }
        }
        ops.push("stack contents".into());
        ops
    }

    fn corpus(&self) -> Vec<Vec<String>> {
        let c = |s: &[&str]| s.iter().map(|x| x.to_string()).collect::<Vec<_>>();
        vec![
            // F1: stale bottom slot exposed by pop on an empty stack
            c(&["stack new 4", "stack push i42", "stack pop_n 1", "stack pop", "stack contents"]),
            c(&["stack new 4", "stack push i42", "stack clear_until 0", "stack pop", "stack len"]),
            c(&["stack new 1", "stack push i1", "stack set 0 i2", "stack pop", "stack contents"]),
            c(&["stack new 2", "stack push i1", "stack push i2", "stack set 1 i3", "stack set 2 i3", "stack contents"]),
        ]
    }

    fn run_impl(&self, ops: &[String], out: &mut Vec<String>) {
        let mut st: Option<ValueStack> = None;
        for op in ops {
            let a = args(op);
            let line = match (a.as_slice(), st.as_mut()) {
                (["new", n], _) => {
                    st = Some(ValueStack::new(n.parse().unwrap()));
                    "ok".to_string()
                }
                (["push", v], Some(s)) => match s.push(tok_val(v).unwrap()) {
                    Ok(()) => "ok".into(),
                    Err(StackError::Full) => "err:Full".into(),
                    Err(StackError::OutOfBounds { .. }) => "err:OutOfBounds".into(),
                },
                (["pop"], Some(s)) => val_tok(s.pop()),
                (["pop_n", n], Some(s)) => match *n {
                    "1" => show_vals(s.pop_n::<1>().into_iter()),
                    "2" => show_vals(s.pop_n::<2>().into_iter()),
                    "3" => show_vals(s.pop_n::<3>().into_iter()),
                    "8" => show_vals(s.pop_n::<8>().into_iter()),
                    _ => "bad-op".into(),
                },
                (["pop_w_offset", n], Some(s)) => val_tok(s.pop_w_offset(n.parse().unwrap())),
                (["set", i, v], Some(s)) => match s.set(i.parse().unwrap(), tok_val(v).unwrap()) {
                    Ok(old) => val_tok(old),
                    Err(StackError::Full) => "err:Full".into(),
                    Err(StackError::OutOfBounds { .. }) => "err:OutOfBounds".into(),
                },
                (["get", i], Some(s)) => val_tok(s.get(i.parse().unwrap())),
                (["last"], Some(s)) => val_tok(s.last()),
                (["peek_last", n], Some(s)) => val_tok(s.peek_last(n.parse().unwrap())),
                (["clear"], Some(s)) => {
                    s.clear();
                    "ok".into()
                }
                (["clear_until", n], Some(s)) => val_tok(s.clear_until(n.parse().unwrap())),
                (["contents"], Some(s)) => {
                    // as_slice and iter must agree
                    let a = show_vals(s.as_slice().iter().copied());
                    let b = show_vals(s.iter());
                    if a == b { a } else { format!("iter-mismatch {a} {b}") }
                }
                (["len"], Some(s)) => {
                    if s.is_empty() != (s.len() == 0) { "is_empty-mismatch".into() } else { s.len().to_string() }
                }
                _ => "bad-op".into(),
            };
            out.push(line);
        }
    }

    /// Vec-based bounded stack — the property's reference model.
    fn run_spec(&self, ops: &[String], _impl_out: &[String]) -> Option<Vec<String>> {
        let mut cap = 0usize;
        let mut v: Vec<String> = vec![];
        let mut undefined = false; // after clear_until above the height: outside the property
        let mut out = vec![];
        for op in ops {
            let a = args(op);
            if undefined && a[0] != "new" {
                out.push("?".into());
                continue;
            }
            let line = match a.as_slice() {
                ["new", n] => {
                    cap = n.parse().unwrap();
                    v.clear();
                    undefined = false;
                    "ok".to_string()
                }
                ["push", x] => {
                    if v.len() + 2 <= cap {
                        v.push(x.to_string());
                        "ok".into()
                    } else {
                        "err:Full".into()
                    }
                }
                ["pop"] => v.pop().unwrap_or("n".into()),
                ["pop_n", n] => {
                    let n: usize = n.parse().unwrap();
                    let mut r = vec![];
                    for _ in 0..n {
                        r.push(v.pop().unwrap_or("n".into()));
                    }
                    format!("[{}]", r.join(" "))
                }
                ["pop_w_offset", o] => {
                    let o: usize = o.parse().unwrap();
                    if v.len() <= o { "n".into() } else { v.pop().unwrap() }
                }
                ["set", i, x] => {
                    let i: usize = i.parse().unwrap();
                    if i > v.len() {
                        "err:OutOfBounds".into()
                    } else if i == v.len() {
                        if v.len() + 2 <= cap {
                            v.push(x.to_string());
                            "n".into()
                        } else {
                            "err:Full".into()
                        }
                    } else {
                        std::mem::replace(&mut v[i], x.to_string())
                    }
                }
                ["get", i] => v.get(i.parse::<usize>().unwrap()).cloned().unwrap_or("n".into()),
                ["last"] => v.last().cloned().unwrap_or("n".into()),
                ["peek_last", n] => {
                    let n: usize = n.parse().unwrap();
                    if v.len() > n { v[v.len() - 1 - n].clone() } else { "n".into() }
                }
                ["clear"] => {
                    v.clear();
                    "ok".into()
                }
                ["clear_until", h] => {
                    let h: usize = h.parse().unwrap();
                    if h <= v.len() {
                        let r = v.last().cloned().unwrap_or("n".into());
                        v.truncate(h);
                        r
                    } else {
                        undefined = true;
                        "?".into()
                    }
                }
                ["contents"] => format!("[{}]", v.join(" ")),
                ["len"] => v.len().to_string(),
                _ => "bad-op".into(),
            };
            out.push(line);
        }
        Some(out)
    }

    fn tags(&self, ops: &[String], impl_out: &[String]) -> Vec<String> {
        let mut t = std::collections::BTreeSet::new();
        for (o, r) in ops.iter().zip(impl_out.iter()) {
            let a = args(o);
            t.insert(format!("op:{}", a[0]));
            if r == "err:Full" {
                t.insert("hit:full".into());
            }
            if r == "err:OutOfBounds" {
                t.insert("hit:oob".into());
            }
            if a[0] == "pop" && r == "n" {
                t.insert("hit:pop-nil".into());
            }
        }
        t.into_iter().collect()
    }

    fn exhaustive(&self, tier: Tier) -> Vec<Vec<String>> {
        if tier != Tier::Thorough {
            return vec![];
        }
        // all op sequences of length <= 5 over a small alphabet at caps 1..3
        let alphabet = [
            "stack push i1", "stack push i2", "stack pop", "stack pop_n 2", "stack pop_w_offset 1",
            "stack set 0 i7", "stack set 1 i8", "stack get 0", "stack last", "stack clear",
            "stack clear_until 0", "stack clear_until 1",
        ];
        let mut res = vec![];
        for cap in 1..=3 {
            let mut idx = vec![0usize; 5];
            'outer: loop {
                let mut c = vec![format!("stack new {cap}")];
                for i in &idx {
                    c.push(alphabet[*i].to_string());
                    c.push("stack contents".into());
                }
                res.push(c);
                for p in 0..idx.len() {
                    idx[p] += 1;
                    if idx[p] < alphabet.len() {
                        continue 'outer;
                    }
                    idx[p] = 0;
                }
                break;
            }
        }
        res
    }
}

// ------------------------------------------------------------------------------------------

struct Tracked {
    id: u64,
    log: Rc<RefCell<Vec<u64>>>,
}
impl Drop for Tracked {
    fn drop(&mut self) {
        self.log.borrow_mut().push(self.id);
    }
}

pub struct BStackEngine;

fn show_ids(v: &[u64]) -> String {
    format!("[{}]", v.iter().map(|x| x.to_string()).collect::<Vec<_>>().join(" "))
}

impl Engine for BStackEngine {
    fn name(&self) -> &'static str {
        "bstack"
    }

    fn gen(&self, rng: &mut Rng, tier: Tier, _idx: usize) -> Vec<String> {
        let cap = rng.range(0, 6) as usize;
        let n = if tier == Tier::Quick { rng.range(5, 40) } else { rng.range(5, 120) };
        let mut ops = vec![format!("bstack new {cap}")];
        let mut next = 1u64;
        for _ in 0..n {
            match rng.weighted(&[40, 25, 8, 5, 6, 6, 6]) {
                0 => {
                    ops.push(format!("bstack push {next}"));
                    next += 1;
                }
                1 => ops.push("bstack pop".into()),
                2 => ops.push("bstack last".into()),
                3 => ops.push("bstack clear".into()),
                4 => ops.push("bstack len".into()),
                5 => ops.push("bstack items".into()),
                _ => ops.push("bstack dropped".into()),
            }
        }
        ops.push("bstack items".into());
        ops.push("bstack drop".into());
        ops
    }

    fn run_impl(&self, ops: &[String], out: &mut Vec<String>) {
        let log = Rc::new(RefCell::new(Vec::<u64>::new()));
        let mut st: Option<BoundedStack<Tracked>> = None;
        for op in ops {
            let a = args(op);
            let line = match (a.as_slice(), st.as_mut()) {
                (["new", n], _) => {
                    st = Some(BoundedStack::new(n.parse().unwrap()));
                    log.borrow_mut().clear();
                    "ok".to_string()
                }
                (["push", id], Some(s)) => {
                    match s.push(Tracked { id: id.parse().unwrap(), log: log.clone() }) {
                        Ok(()) => "ok".into(),
                        Err(_) => "err:Full".into(),
                    }
                }
                (["pop"], Some(s)) => match s.pop() {
                    Some(t) => {
                        let id = t.id;
                        std::mem::forget(t); // popped elements are owned by the caller: not a drop
                        id.to_string()
                    }
                    None => "none".into(),
                },
                (["last"], Some(s)) => s.last().map(|t| t.id.to_string()).unwrap_or("none".into()),
                (["clear"], Some(s)) => {
                    s.clear();
                    "ok".into()
                }
                (["len"], Some(s)) => {
                    if s.is_empty() != (s.len() == 0) { "is_empty-mismatch".into() } else { s.len().to_string() }
                }
                (["items"], Some(s)) => {
                    let a: Vec<u64> = s.iter().map(|t| t.id).collect();
                    let mut b: Vec<u64> = s.iter_backwards().map(|t| t.id).collect();
                    b.reverse();
                    if a == b { show_ids(&a) } else { "iter-mismatch".into() }
                }
                (["dropped"], Some(_)) => show_ids(&log.borrow()),
                (["drop"], Some(_)) => {
                    st = None;
                    show_ids(&log.borrow())
                }
                _ => "bad-op".into(),
            };
            out.push(line);
        }
    }

    fn run_spec(&self, ops: &[String], _impl_out: &[String]) -> Option<Vec<String>> {
        let mut cap = 0usize;
        let mut v: Vec<u64> = vec![];
        let mut dropped: Vec<u64> = vec![];
        let mut live = false;
        let mut out = vec![];
        for op in ops {
            let a = args(op);
            let line = match a.as_slice() {
                ["new", n] => {
                    cap = n.parse().unwrap();
                    v.clear();
                    dropped.clear();
                    live = true;
                    "ok".to_string()
                }
                _ if !live => "bad-op".into(),
                ["push", id] => {
                    let id = id.parse().unwrap();
                    if v.len() < cap {
                        v.push(id);
                        "ok".into()
                    } else {
                        dropped.push(id);
                        "err:Full".into()
                    }
                }
                ["pop"] => v.pop().map(|x| x.to_string()).unwrap_or("none".into()),
                ["last"] => v.last().map(|x| x.to_string()).unwrap_or("none".into()),
                ["clear"] => {
                    dropped.extend(v.drain(..));
                    "ok".into()
                }
                ["len"] => v.len().to_string(),
                ["items"] => show_ids(&v),
                ["dropped"] => show_ids(&dropped),
                ["drop"] => {
                    dropped.extend(v.drain(..));
                    live = false;
                    show_ids(&dropped)
                }
                _ => "bad-op".into(),
            };
            out.push(line);
        }
        Some(out)
    }

    fn tags(&self, ops: &[String], impl_out: &[String]) -> Vec<String> {
        let mut t = std::collections::BTreeSet::new();
        for (o, r) in ops.iter().zip(impl_out.iter()) {
            let a = args(o);
            t.insert(format!("op:{}", a[0]));
            if r == "err:Full" {
                t.insert("hit:full".into());
            }
            if r == "none" {
                t.insert("hit:empty".into());
            }
        }
        t.into_iter().collect()
    }
}
