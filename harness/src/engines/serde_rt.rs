//! Engine `ser` (C11): serialization round trips of source modules (JSON, YAML), compiled programs
//! (JSON, CBOR, bincode) and runtime values (OwnedValue through JSON into another VM).
use crate::cards::*;
use crate::engines::compile::show_program;
use crate::engines::values::{build, gen_value, read_back, OV};
use crate::engines::vm::{new_vm, show_outcome};
use crate::framework::{Engine, Tier};
use crate::progs::*;
use crate::rng::Rng;
use cao_lang::prelude::*;

pub struct SerEngine;

fn run_obs(prog: &CaoCompiledProgram) -> String {
    let mut vm = new_vm(409600, 256, 256);
    vm.max_instr = 3000;
    let res = vm.run(prog);
    show_outcome(&vm, prog, &res)
}

/// lookups of names that are NOT in the (deserialized) tables terminate and find nothing (a hang
/// is caught by the worker watchdog)
fn absent_lookups(prog: &CaoCompiledProgram) -> bool {
    let names = ["__absent__", "nosuchvar", "g", "zz9"];
    let declared: Vec<String> = prog.variables.names.iter().map(|(_, n)| n.to_string()).collect();
    names.iter().filter(|n| !declared.iter().any(|d| d == *n)).all(|n| prog.variable_id(n).is_none())
}

impl Engine for SerEngine {
    fn name(&self) -> &'static str {
        "ser"
    }
    fn gen(&self, rng: &mut Rng, tier: Tier, idx: usize) -> Vec<String> {
        match idx % 3 {
            0 => {
                let size = if tier == Tier::Quick { rng.range(1, 5) } else { rng.range(1, 9) } as usize;
                let m = if idx % 9 == 0 {
                    // 0-3 globals / no functions besides main: tiny label and variable tables
                    let k = rng.range(0, 4);
                    let cards = (0..k).map(|i| cao_lang::compiler::Card::set_global_var(format!("tiny{i}"), crate::progs::int(i))).collect();
                    cao_lang::compiler::Module { submodules: vec![], functions: vec![("main".into(), cao_lang::compiler::Function { arguments: vec![], cards })], imports: vec![] }
                } else {
                    let ws = rng.chance(1, 2);
                    gen_program(rng, &GenOpts { size, with_submodules: ws })
                };
                vec![format!("ser module {}", module_tok(&m)), format!("ser program {}", module_tok(&m))]
            }
            1 => {
                let ws = rng.chance(1, 2);
                let size = rng.range(1, 6) as usize;
                let mut m = gen_program(rng, &GenOpts { size, with_submodules: ws });
                if rng.chance(1, 3) {
                    // functions without cards: their epilogue is traced at the empty card index
                    m.functions.push(("emptyfn".into(), cao_lang::compiler::Function::default()));
                    if let Some((_, sub)) = m.submodules.first_mut() {
                        sub.functions.push(("emptysub".into(), cao_lang::compiler::Function { arguments: vec!["a".into()], cards: vec![] }));
                    }
                }
                vec![format!("ser program {}", module_tok(&m))]
            }
            _ => {
                let mut v = gen_value(rng, 3);
                // functions cannot be owned; NaN does not survive JSON
                fn clean(v: &OV) -> OV {
                    match v {
                        OV::Fn(..) | OV::Native(_) | OV::Closure(..) => OV::Int(1),
                        OV::Real(b) if !f64::from_bits(*b).is_finite() => OV::Real(1.5f64.to_bits()),
                        OV::Table(es) => OV::Table(es.iter().map(|(k, v)| (clean(k), clean(v))).collect()),
                        o => o.clone(),
                    }
                }
                v = clean(&v);
                if rng.chance(1, 4) {
                    let sub = match &v { OV::Table(_) => v.clone(), _ => OV::Table(vec![(OV::Int(1), v.clone())]) };
                    return vec![format!("ser shared {}", sub.tok())];
                }
                vec![format!("ser value {}", v.tok())]
            }
        }
    }
    fn model_compared(&self, _op: &str) -> bool {
        false
    }
    fn run_impl(&self, ops: &[String], out: &mut Vec<String>) {
        for op in ops {
            let a: Vec<&str> = op.split(' ').collect();
            let line = match a.as_slice() {
                ["ser", "module", m] => {
                    let module = parse_module(m).unwrap();
                    let base = compile(module.clone(), None).map(|p| show_program(&p)).unwrap_or_else(|e| format!("{:?}", e.payload));
                    let js = serde_json::to_string(&module).unwrap();
                    let back: cao_lang::compiler::Module = serde_json::from_str(&js).unwrap();
                    let j = compile(back, None).map(|p| show_program(&p)).unwrap_or_else(|e| format!("{:?}", e.payload));
                    let y = match serde_yaml::to_string(&module) {
                        Ok(ys) => match serde_yaml::from_str::<cao_lang::compiler::Module>(&ys) {
                            Ok(back) => compile(back, None).map(|p| show_program(&p)).unwrap_or_else(|e| format!("{:?}", e.payload)),
                            Err(e) => format!("yaml-de-error {e}"),
                        },
                        Err(e) => format!("yaml-ser-error {e}"),
                    };
                    format!("json={} yaml={}", if j == base { "same" } else { "diff" }, if y == base { "same".to_string() } else if y.starts_with("yaml-") { y.chars().take(60).collect() } else { "diff".into() })
                }
                ["ser", "program", m] => {
                    let module = parse_module(m).unwrap();
                    match compile(module, None) {
                        Err(_) => "json=same cbor=same bincode=same run=same".to_string(),
                        Ok(prog) => {
                            let base = show_program(&prog);
                            let base_run = run_obs(&prog);
                            let mut parts = vec![];
                            let mut runs_same = true;
                            {
                                let s = serde_json::to_string(&prog).unwrap();
                                let back: CaoCompiledProgram = serde_json::from_str(&s).unwrap();
                                parts.push(format!("json={}", if show_program(&back) == base { "same" } else { "diff" }));
                                runs_same &= run_obs(&back) == base_run && absent_lookups(&back);
                            }
                            {
                                let mut buf = vec![];
                                ciborium::ser::into_writer(&prog, &mut buf).unwrap();
                                let back: CaoCompiledProgram = ciborium::de::from_reader(buf.as_slice()).unwrap();
                                parts.push(format!("cbor={}", if show_program(&back) == base { "same" } else { "diff" }));
                                runs_same &= run_obs(&back) == base_run && absent_lookups(&back);
                            }
                            {
                                let buf = bincode::serde::encode_to_vec(&prog, bincode::config::standard()).unwrap();
                                let (back, _): (CaoCompiledProgram, usize) = bincode::serde::decode_from_slice(&buf, bincode::config::standard()).unwrap();
                                parts.push(format!("bincode={}", if show_program(&back) == base { "same" } else { "diff" }));
                                runs_same &= run_obs(&back) == base_run && absent_lookups(&back);
                            }
                            format!("{} run={}", parts.join(" "), if runs_same { "same" } else { "diff" })
                        }
                    }
                }
                // one sub-table object referenced twice (no cycle): owning, serializing and re-inserting
                // must succeed and give two deeply equal entries
                ["ser", "shared", v] => {
                    let ov = OV::parse(v).unwrap();
                    let mut vm_a = new_vm(409600, 256, 256);
                    let sub = build(&mut vm_a, &ov).unwrap();
                    let outer = vm_a.init_table().unwrap().into_inner();
                    vm_a.stack_push(Value::Object(outer)).unwrap();
                    let ka = Value::Integer(0);
                    let kb = Value::Object(vm_a.init_string("b").unwrap().into_inner());
                    unsafe {
                        (*outer.as_ptr()).as_table_mut().unwrap().insert(ka, sub).unwrap();
                        (*outer.as_ptr()).as_table_mut().unwrap().insert(kb, sub).unwrap();
                    }
                    let expect = format!("t[i0:{},s62:{}]", ov.tok(), ov.tok());
                    match OwnedValue::try_from(Value::Object(outer)) {
                        Err(_) => "not-ownable".to_string(),
                        Ok(owned) => {
                            let js = serde_json::to_string(&owned).unwrap();
                            let back: OwnedValue = serde_json::from_str(&js).unwrap();
                            let mut vm_b = new_vm(409600, 256, 256);
                            let v2 = vm_b.insert_value(&back).unwrap();
                            let t2 = read_back(v2, 12).tok();
                            if t2 == expect { "same".into() } else { format!("diff {t2}") }
                        }
                    }
                }
                ["ser", "value", v] => {
                    let ov = OV::parse(v).unwrap();
                    let mut vm_a = new_vm(409600, 256, 256);
                    let val = build(&mut vm_a, &ov).unwrap();
                    match OwnedValue::try_from(val) {
                        Err(_) => "not-ownable".to_string(),
                        Ok(owned) => {
                            let js = serde_json::to_string(&owned).unwrap();
                            let back: OwnedValue = serde_json::from_str(&js).unwrap();
                            let mut vm_b = new_vm(409600, 256, 256);
                            let v2 = vm_b.insert_value(&back).unwrap();
                            let t2 = read_back(v2, 12).tok();
                            // the same insertion with a collection forced at every allocation point
                            // (swept objects are poisoned): partially built values must stay alive
                            let mut vm_c = new_vm(409600, 256, 256);
                            cao_lang::verif::set_gc_schedule(cao_lang::verif::GcSchedule::Every);
                            let v3 = vm_c.insert_value(&back);
                            cao_lang::verif::set_gc_schedule(cao_lang::verif::GcSchedule::None);
                            let t3 = match v3 {
                                Ok(v) => read_back(v, 12).tok(),
                                Err(e) => format!("err:{e:?}"),
                            };
                            if t2 != ov.tok() {
                                format!("diff {t2}")
                            } else if t3 != ov.tok() {
                                format!("diff-under-forced-gc {t3}")
                            } else {
                                "same".into()
                            }
                        }
                    }
                }
                _ => "bad-op".into(),
            };
            out.push(line);
        }
    }
    fn run_spec(&self, ops: &[String], _impl_out: &[String]) -> Option<Vec<String>> {
        Some(ops.iter().map(|o| {
            if o.starts_with("ser module") { "json=same yaml=same".to_string() }
            else if o.starts_with("ser program") { "json=same cbor=same bincode=same run=same".into() }
            else { "same".into() }
        }).collect())
    }
    fn tags(&self, ops: &[String], _impl_out: &[String]) -> Vec<String> {
        ops.iter().map(|o| o.split(' ').take(2).collect::<Vec<_>>().join(":")).collect()
    }
    fn nontrivial(&self, _ops: &[String], _o: &[String]) -> bool {
        true
    }
    fn shrink_keep_prefix(&self, _ops: &[String]) -> usize {
        0
    }
}
