//! Engine `sem`: IMPL (real compile + run) against the reference semantics `Sem` (Lean driver).
//! Here the driver is the SPEC: a disagreement is an implementation-vs-oracle failure.
use crate::cards::*;
use crate::engines::vm::{err_kind, new_vm, Aux};
use crate::engines::values::read_back;
use crate::framework::{Engine, Tier};
use crate::progs::*;
use crate::rng::Rng;
use cao_lang::prelude::*;

/// function values are opaque in observations
pub fn canon_fn_tokens(s: &str) -> String {
    let b = s.as_bytes();
    let mut out = String::with_capacity(s.len());
    let mut i = 0;
    let boundary = |c: u8| matches!(c, b'[' | b',' | b':' | b'=' | b' ' | b'|');
    while i < b.len() {
        let c = b[i];
        let at_tok = i == 0 || boundary(b[i - 1]);
        if at_tok && (c == b'f' || c == b'c') && i + 1 < b.len() && b[i + 1].is_ascii_digit() {
            let mut j = i + 1;
            while j < b.len() && b[j].is_ascii_digit() {
                j += 1;
            }
            if j < b.len() && b[j] == b'/' {
                let mut k = j + 1;
                while k < b.len() && b[k].is_ascii_digit() {
                    k += 1;
                }
                out.push(c as char);
                out.push_str("0/0");
                i = k;
                continue;
            }
        }
        if at_tok && c == b'N' && i + 1 < b.len() && b[i + 1].is_ascii_digit() {
            let mut j = i + 1;
            while j < b.len() && b[j].is_ascii_digit() {
                j += 1;
            }
            out.push_str("N0");
            i = j;
            continue;
        }
        out.push(c as char);
        i += 1;
    }
    out
}

pub fn observe(vm: &Vm<Aux>, prog: &CaoCompiledProgram, res: &Result<(), ExecutionError>) -> String {
    let r = match res {
        Ok(()) => "ok".to_string(),
        Err(e) => format!("err:{}", err_kind(&e.payload)),
    };
    let mut globals: Vec<String> = prog
        .variables
        .names
        .iter()
        .filter_map(|(_, name)| match vm.read_var_by_name(name, &prog.variables) {
            Some(Value::Nil) | None => None,
            Some(v) => Some(format!("{name}={}", read_back(v, 12).tok())),
        })
        .collect();
    globals.sort();
    canon_fn_tokens(&format!("{r} globals=[{}] log=[{}]", globals.join(","), vm.get_aux().join("|")))
}

pub fn is_resource_err(line: &str) -> bool {
    ["err:Timeout", "err:Stackoverflow", "err:CallStackOverflow", "err:OutOfMemory"].iter().any(|p| line.starts_with(p))
        || (line.starts_with("err:TaskFailure") && ["Timeout", "Stackoverflow", "CallStackOverflow", "OutOfMemory"].iter().any(|k| line.split(' ').next().unwrap_or("").ends_with(k)))
}

pub struct SemEngine;

impl Engine for SemEngine {
    fn name(&self) -> &'static str {
        "sem"
    }

    fn gen(&self, rng: &mut Rng, tier: Tier, idx: usize) -> Vec<String> {
        let size = if tier == Tier::Quick { rng.range(1, 6) } else { rng.range(1, 9) } as usize;
        let m = gen_program(rng, &GenOpts { size, with_submodules: idx % 2 == 0 });
        vec![format!("sem run {}", module_tok(&m))]
    }

    fn corpus(&self) -> Vec<Vec<String>> {
        crate::engines::vm::VmEngine
            .corpus()
            .into_iter()
            // (the cyclic-table case of known finding K2 crashes the worker: it is exhibited by the vm engine only)
            .filter(|c| !c.iter().any(|l| l.contains("setprop(readvar($74),readvar($74)")))
            // (`papply` is a harness-only host function that the reference semantics does not define)
            .filter(|c| !c.iter().any(|l| l.contains("$706170706c79")))
            .filter_map(|c| c.into_iter().find(|l| l.starts_with("vm run")).map(|l| vec![format!("sem run {}", l.split(' ').nth(2).unwrap())]))
            .chain([
                // known finding K1: a call in statement position leaves its result on the stack;
                // 300 iterations of a trivial while loop exhaust a 256-slot stack
                vec!["sem run mod([],[fn($6d61696e,[],[setvar($63,int(#0)),while(less(readvar($63),int(#300)),composite($5f,[call($66,[]),setvar($63,add(readvar($63),int(#1)))])),setglobal($67,int(#1))]),fn($66,[],[return(int(#5))])],[]) strict".to_string()],
                // two captured variables of one loop iteration, the closures called after the loop
                // (repaired: CloseUpvalue did not remove its slot, the lower variable stayed open)
                vec!["sem run mod([],[fn($6d61696e,[],[setvar($63,table),repeat($69,int(#3),composite($5f,[setvar($61,readvar($69)),setvar($62,mul(readvar($69),int(#10))),append(closure([],[return(add(readvar($61),readvar($62)))]),readvar($63))])),setglobal($6730,dyncall([],getprop(readvar($63),int(#0)))),setglobal($6731,dyncall([],getprop(readvar($63),int(#1)))),setglobal($6732,dyncall([],getprop(readvar($63),int(#2))))])],[])".to_string()],
                // a module-prefix import through `super.` (repaired: it never resolved)
                vec!["sem run mod([],[fn($6d61696e,[],[setglobal($67,call($6c69622e696e6e65722e72,[]))])],[sub($6c6962,mod([],[],[sub($696e6e6572,mod([$73757065722e736962],[fn($72,[],[return(call($7369622e71,[]))])],[])),sub($736962,mod([],[fn($71,[],[return(int(#7))])],[]))]))])".to_string()],
                // (repaired, was K8) a failed run_function left the callee's frames; a host function that
                // tolerates the failure (pcall) continued with them on the call stack
                vec!["sem run mod([],[fn($6d61696e,[],[setglobal($61,call($66,[]))]),fn($66,[],[setvar($78,callnative($7063616c6c,[closure([$70],[return(getprop(int(#1),int(#2)))]),int(#0)])),return(int(#5))])],[])".to_string()],
                // known finding K6: `abort` inside a callee that a host function called ends only the callee
                vec!["sem run mod([],[fn($6d61696e,[],[setglobal($67,callnative($63616c6c6261636b,[closure([$70],[abort]),int(#5)])),setglobal($68,int(#7))])],[])".to_string()],
                // known finding K4: a call with too few arguments binds the caller's local
                vec!["sem run mod([],[fn($6d61696e,[],[setvar($78,int(#1)),setglobal($67,call($66,[])),setglobal($68,readvar($78))]),fn($66,[$61],[return(readvar($61))])],[])".to_string()],
            ])
            .collect()
    }

    fn timeout(&self) -> std::time::Duration {
        std::time::Duration::from_secs(20)
    }

    fn run_impl(&self, ops: &[String], out: &mut Vec<String>) {
        for op in ops {
            let a: Vec<&str> = op.split(' ').collect();
            let line = match a.as_slice() {
                ["sem", "run", m, ..] => match parse_module(m) {
                    None => "bad-op".to_string(),
                    Some(m) => match compile(m, None) {
                        Err(e) => format!("compile-error:{}", crate::engines::compile::payload_name(&e.payload)),
                        Ok(prog) => {
                            let mut vm = new_vm(409600, 256, 256);
                            vm.max_instr = 20000;
                            let res = vm.run(&prog);
                            observe(&vm, &prog, &res)
                        }
                    },
                },
                _ => "bad-op".into(),
            };
            out.push(line);
        }
    }

    /// the reference semantics has no machine resources and abstains where the language does
    fn model_equiv(&self, op: &str, impl_line: &str, model_line: &str) -> bool {
        // `strict`: the program's resource needs are small by construction, so a resource error
        // of the implementation is not excused
        if model_line.starts_with("unspecified") || (is_resource_err(impl_line) && !op.ends_with(" strict")) {
            return true;
        }
        let m = model_line.strip_suffix(" k4").unwrap_or(model_line);
        impl_line == m.strip_suffix(" k1").unwrap_or(m)
    }

    fn tags(&self, ops: &[String], impl_out: &[String]) -> Vec<String> {
        let mut t = std::collections::BTreeSet::new();
        for (o, r) in ops.iter().zip(impl_out.iter()) {
            let res = r.split(' ').next().unwrap_or("");
            t.insert(format!("impl:{}", res.split('(').next().unwrap_or("")));
            if is_resource_err(r) {
                t.insert("abstain:resource-error".into());
            }
            for k in ["closure(", "foreach(", "repeat(", "while(", "dyncall(", "call(", "callnative(", "array(", "sub("] {
                if o.contains(k) {
                    t.insert(format!("has:{}", k.trim_end_matches('(')));
                }
            }
        }
        t.into_iter().collect()
    }

    fn nontrivial(&self, ops: &[String], _o: &[String]) -> bool {
        ops.iter().any(|o| o.len() > 150)
    }

    fn shrink_keep_prefix(&self, _ops: &[String]) -> usize {
        0
    }
}
