//! Engine `mod`: the module editing API (get/insert/remove/replace/swap/walk + per-kind child tables).
use crate::cards::*;
use crate::framework::{Engine, Tier};
use crate::rng::Rng;
use cao_lang::compiler::{Card, CardFetchError, CardIndex, Function, Module, SwapError};

fn args(op: &str) -> Vec<&str> {
    op.split(' ').skip(1).collect()
}

pub fn parse_idx(s: &str) -> CardIndex {
    let parts: Vec<u32> = s.split('.').map(|x| x.parse().unwrap()).collect();
    CardIndex::from_slice(parts[0] as usize, &parts[1..])
}

pub fn idx_tok(i: &CardIndex) -> String {
    let mut s = i.function.to_string();
    for x in i.card_index.indices.iter() {
        s.push('.');
        s.push_str(&x.to_string());
    }
    s
}

fn fetch_err(e: &CardFetchError) -> &'static str {
    match e {
        CardFetchError::FunctionNotFound => "FunctionNotFound",
        CardFetchError::CardNotFound { .. } => "CardNotFound",
        CardFetchError::NoSubFunction { .. } => "NoSubFunction",
        CardFetchError::InvalidIndex => "InvalidIndex",
    }
}

pub struct ModEngine;

fn gen_module(rng: &mut Rng, g: &mut CardGen, depth: usize) -> Module {
    let nf = rng.range(1, 3) as usize;
    let functions = (0..nf)
        .map(|i| {
            let n = rng.range(0, 4) as usize;
            (
                if i == 0 { "main".to_string() } else { format!("f{i}") },
                Function { arguments: vec![], cards: (0..n).map(|_| g.card(rng, depth)).collect() },
            )
        })
        .collect();
    Module { submodules: vec![], functions, imports: vec![] }
}

/// all valid indices of a module (by walking) — used to steer the generator towards valid edits
fn valid_indices(m: &mut Module) -> Vec<CardIndex> {
    let mut v = vec![];
    m.walk_cards(|i, _| v.push(i.clone()));
    v
}

impl Engine for ModEngine {
    fn name(&self) -> &'static str {
        "mod"
    }

    fn gen(&self, rng: &mut Rng, tier: Tier, _idx: usize) -> Vec<String> {
        let mut g = CardGen { next: 0 };
        let depth = rng.range(1, 4) as usize;
        let mut m = gen_module(rng, &mut g, depth);
        let mut ops = vec![format!("mod load {}", module_tok(&m))];
        let n = if tier == Tier::Quick { rng.range(6, 30) } else { rng.range(6, 80) };
        for _ in 0..n {
            let valid = valid_indices(&mut m);
            let pick = |rng: &mut Rng| -> CardIndex {
                if valid.is_empty() || rng.chance(1, 6) {
                    // invalid / odd indices: wrong function, too deep, out of range, empty
                    let f = rng.range(0, 3) as usize;
                    let k = rng.range(0, 3) as usize;
                    let v: Vec<u32> = (0..k).map(|_| rng.range(0, 5) as u32).collect();
                    CardIndex::from_slice(f, &v)
                } else {
                    let mut i = rng.pick(&valid).clone();
                    match rng.below(8) {
                        0 => {
                            // one past / sibling positions (valid for list inserts)
                            let c = i.current_index();
                            i.set_current_index(c + rng.range(0, 2) as usize);
                            i
                        }
                        1 => i.with_sub_index(rng.range(0, 3) as usize),
                        _ => i,
                    }
                }
            };
            let a = pick(rng);
            let b = pick(rng);
            let c = card_tok(&g.card(rng, 1));
            let op = match rng.weighted(&[12, 14, 14, 10, 14, 4, 4, 8, 2]) {
                0 => format!("mod get {}", idx_tok(&a)),
                1 => format!("mod insert {} {c}", idx_tok(&a)),
                2 => format!("mod remove {}", idx_tok(&a)),
                3 => format!("mod replace {} {c}", idx_tok(&a)),
                4 => {
                    // bias towards self, ancestor and descendant pairs
                    let b2 = match rng.below(5) {
                        0 => a.clone(),
                        1 => a.clone().with_sub_index(rng.range(0, 2) as usize),
                        _ => b,
                    };
                    if rng.chance(1, 2) { format!("mod swap {} {}", idx_tok(&a), idx_tok(&b2)) } else { format!("mod swap {} {}", idx_tok(&b2), idx_tok(&a)) }
                }
                5 => "mod walk".to_string(),
                6 => "mod walkcheck".to_string(),
                7 => format!("mod children {}", idx_tok(&a)),
                _ => "mod dump".to_string(),
            };
            // keep our shadow module in sync so that later indices stay mostly valid (the shadow
            // uses the crate under test: a panic there must not take the generator down)
            let prev = std::panic::take_hook();
            std::panic::set_hook(Box::new(|_| {}));
            let mut copy = m.clone();
            if std::panic::catch_unwind(std::panic::AssertUnwindSafe(|| apply_shadow(&mut copy, &op))).is_ok() {
                m = copy;
            }
            std::panic::set_hook(prev);
            ops.push(op);
        }
        ops.push("mod walkcheck".into());
        ops.push("mod dump".into());
        ops
    }

    fn corpus(&self) -> Vec<Vec<String>> {
        let c = |s: &[&str]| s.iter().map(|x| x.to_string()).collect::<Vec<_>>();
        let m = "mod([],[fn($6d61696e,[],[add(int(#1),int(#2)),call($66,[int(#3)]),callnative($67,[]),repeat(?,int(#4),nil)])],[])";
        vec![
            // F15: swapping a card with itself must not destroy it
            c(&[&format!("mod load {m}"), "mod swap 0.0 0.0", "mod get 0.0", "mod dump"]),
            // F15: insert_child on Call / CallNative with an out-of-range index must fail
            c(&[&format!("mod load {m}"), "mod insert 0.1.5 int(#9)", "mod insert 0.2.3 int(#9)", "mod dump"]),
            c(&[&format!("mod load {m}"), "mod swap 0.0 0.0.1", "mod swap 0.0.1 0.0", "mod dump", "mod remove 0.3.0", "mod remove 0.3.1", "mod dump", "mod get 0", "mod remove 0", "mod insert 0 nil", "mod get 5.0"]),
        ]
    }

    fn run_impl(&self, ops: &[String], out: &mut Vec<String>) {
        let mut m: Option<Module> = None;
        for op in ops {
            out.push(step_impl(&mut m, op));
        }
    }

    /// plain tree-edit model over the token trees
    fn run_spec(&self, ops: &[String], _impl_out: &[String]) -> Option<Vec<String>> {
        let mut m: Option<Vec<(String, Vec<String>, Vec<T>)>> = None; // functions: (name, args, cards)
        let mut out = vec![];
        for op in ops {
            out.push(spec_step(&mut m, op));
        }
        Some(out)
    }

    fn tags(&self, ops: &[String], impl_out: &[String]) -> Vec<String> {
        let mut t = std::collections::BTreeSet::new();
        for (o, r) in ops.iter().zip(impl_out.iter()) {
            let a = args(o);
            let ok = !r.starts_with("err:");
            t.insert(format!("op:{}:{}", a[0], if ok { "ok" } else { "err" }));
            if a[0] == "swap" && a[1] == a[2] {
                t.insert("hit:swap-self".into());
            }
            if a[0] == "swap" && (a[1].starts_with(&format!("{}.", a[2])) || a[2].starts_with(&format!("{}.", a[1]))) {
                t.insert("hit:swap-ancestor".into());
            }
        }
        t.into_iter().collect()
    }
}

fn apply_shadow(m: &mut Module, op: &str) {
    let a = args(op);
    match a[0] {
        "insert" => {
            let _ = m.insert_card(&parse_idx(a[1]), parse_card(a[2]).unwrap());
        }
        "remove" => {
            let _ = m.remove_card(&parse_idx(a[1]));
        }
        "replace" => {
            let _ = m.replace_card(&parse_idx(a[1]), parse_card(a[2]).unwrap());
        }
        "swap" => {
            // the pinned tree destroys a card on swap(i, i); keep the shadow sane
            if a[1] != a[2] {
                let _ = m.swap_cards(&parse_idx(a[1]), &parse_idx(a[2]));
            }
        }
        _ => {}
    }
}

fn step_impl(m: &mut Option<Module>, op: &str) -> String {
    let a = args(op);
    if a[0] == "load" {
        *m = parse_module(a[1]);
        return if m.is_some() { "ok".into() } else { "bad-op".into() };
    }
    let Some(m) = m.as_mut() else { return "bad-op".into() };
    match a.as_slice() {
        ["get", i] => match m.get_card(&parse_idx(i)) {
            Ok(c) => card_tok(c),
            Err(e) => format!("err:{}", fetch_err(&e)),
        },
        ["insert", i, c] => match m.insert_card(&parse_idx(i), parse_card(c).unwrap()) {
            Ok(()) => "ok".into(),
            Err(e) => format!("err:{}", fetch_err(&e)),
        },
        ["remove", i] => match m.remove_card(&parse_idx(i)) {
            Ok(c) => card_tok(&c),
            Err(e) => format!("err:{}", fetch_err(&e)),
        },
        ["replace", i, c] => match m.replace_card(&parse_idx(i), parse_card(c).unwrap()) {
            Ok(c) => card_tok(&c),
            Err(e) => format!("err:{}", fetch_err(&e)),
        },
        ["swap", i, j] => match m.swap_cards(&parse_idx(i), &parse_idx(j)) {
            Ok(()) => "ok".into(),
            Err(SwapError::InvalidSwap) => "err:InvalidSwap".into(),
            Err(SwapError::FetchError(_, e)) => format!("err:FetchError:{}", fetch_err(&e)),
        },
        ["walk"] => {
            let mut v = vec![];
            m.walk_cards(|i, _| v.push(idx_tok(i)));
            let mut v2 = vec![];
            m.walk_cards_mut(|i, _| v2.push(idx_tok(i)));
            if v != v2 { "walk-mismatch".into() } else { format!("[{}]", v.join(" ")) }
        }
        ["walkcheck"] => {
            let mut v: Vec<(CardIndex, String)> = vec![];
            m.walk_cards(|i, c| v.push((i.clone(), card_tok(c))));
            for (i, c) in &v {
                match m.get_card(i) {
                    Ok(c2) if &card_tok(c2) == c => {}
                    _ => return format!("mismatch {}", idx_tok(i)),
                }
            }
            format!("ok {}", v.len())
        }
        ["children", i] => match m.get_card(&parse_idx(i)) {
            Ok(c) => children_line(c),
            Err(e) => format!("err:{}", fetch_err(&e)),
        },
        ["dump"] => module_tok(m),
        _ => "bad-op".into(),
    }
}

pub fn children_line(c: &Card) -> String {
    let n = c.num_children() as usize;
    let it: Vec<String> = c.iter_children().map(card_tok).collect();
    let get: Vec<String> = (0..n + 2).map(|i| c.get_child(i).map(card_tok).unwrap_or("-".into())).collect();
    format!("num={n} iter=[{}] get=[{}]", it.join(","), get.join(","))
}

// ------------------------------------------------------------------------------------------
// Independent oracle: a generic labelled tree with per-kind slot descriptions.

#[derive(Clone, Debug, PartialEq)]
pub struct T {
    head: String,       // kind name
    pre: Vec<String>,   // non-card leading arguments (names, literals)
    kids: Vec<T>,       // child cards in get_child order
    list: bool,         // children form a list (insert/remove shift) or fixed slots
    list_from: usize,   // for dyncall: children [0] fixed (function), the rest is a list
}

fn t_of(c: &Card) -> T {
    use cao_lang::compiler::CardBody as B;
    let tok = card_tok(c);
    let head = tok.split('(').next().unwrap().to_string();
    let kids: Vec<T> = (0..c.num_children() as usize).map(|i| t_of(c.get_child(i).unwrap())).collect();
    let (pre, list, list_from): (Vec<String>, bool, usize) = match &c.body {
        B::ScalarInt(i) => (vec![format!("#{i}")], false, 0),
        B::ScalarFloat(f) => (vec![format!("${:016x}", f.to_bits())], false, 0),
        B::StringLiteral(s) | B::Comment(s) | B::Function(s) | B::NativeFunction(s) | B::ReadVar(s) => (vec![hex(s)], false, 0),
        B::SetVar(s) | B::SetGlobalVar(s) => (vec![hex(&s.name)], false, 0),
        B::CallNative(x) => (vec![hex(&x.name)], true, 0),
        B::Call(x) => (vec![hex(&x.function_name)], true, 0),
        B::Repeat(r) => (vec![r.i.as_ref().map(|s| hex(s)).unwrap_or("?".into())], false, 0),
        B::ForEach(f) => (
            [&f.i, &f.k, &f.v].iter().map(|o| o.as_ref().map(|s| hex(s)).unwrap_or("?".into())).collect(),
            false,
            0,
        ),
        B::CompositeCard(x) => (vec![hex(&x.ty)], true, 0),
        B::DynamicCall(_) => (vec![], true, 1),
        B::Array(_) => (vec![], true, 0),
        B::Closure(f) => (vec![format!("[{}]", f.arguments.iter().map(|a| hex(a)).collect::<Vec<_>>().join(","))], true, 0),
        _ => (vec![], false, 0),
    };
    T { head, pre, kids, list, list_from }
}

fn t_tok(t: &T) -> String {
    let k = |v: &[T]| v.iter().map(t_tok).collect::<Vec<_>>().join(",");
    match t.head.as_str() {
        "nil" | "table" | "abort" => t.head.clone(),
        "callnative" | "call" | "composite" => format!("{}({},[{}])", t.head, t.pre[0], k(&t.kids)),
        "array" => format!("array([{}])", k(&t.kids)),
        "closure" => format!("closure({},[{}])", t.pre[0], k(&t.kids)),
        "dyncall" => format!("dyncall([{}],{})", k(&t.kids[1..]), t_tok(&t.kids[0])),
        _ => {
            let mut parts: Vec<String> = t.pre.clone();
            parts.extend(t.kids.iter().map(t_tok));
            format!("{}({})", t.head, parts.join(","))
        }
    }
}

fn placeholder(parent: &T, slot: usize) -> T {
    let nil = T { head: "nil".into(), pre: vec![], kids: vec![], list: false, list_from: 0 };
    if parent.head == "repeat" && slot == 0 {
        T { head: "int".into(), pre: vec!["#0".into()], kids: vec![], list: false, list_from: 0 }
    } else {
        nil
    }
}

type SpecMod = Vec<(String, Vec<String>, Vec<T>)>;

fn spec_get<'a>(m: &'a SpecMod, f: usize, idx: &[usize]) -> Result<&'a T, &'static str> {
    let fun = m.get(f).ok_or("FunctionNotFound")?;
    let first = *idx.first().ok_or("InvalidIndex")?;
    let mut c = fun.2.get(first).ok_or("CardNotFound")?;
    for i in &idx[1..] {
        c = c.kids.get(*i).ok_or("CardNotFound")?;
    }
    Ok(c)
}

fn spec_get_mut<'a>(m: &'a mut SpecMod, f: usize, idx: &[usize]) -> Result<&'a mut T, &'static str> {
    let fun = m.get_mut(f).ok_or("FunctionNotFound")?;
    let first = *idx.first().ok_or("InvalidIndex")?;
    let mut c = fun.2.get_mut(first).ok_or("CardNotFound")?;
    for i in &idx[1..] {
        c = c.kids.get_mut(*i).ok_or("CardNotFound")?;
    }
    Ok(c)
}

fn split_idx(s: &str) -> (usize, Vec<usize>) {
    let parts: Vec<usize> = s.split('.').map(|x| x.parse().unwrap()).collect();
    (parts[0], parts[1..].to_vec())
}

fn spec_step(m: &mut Option<SpecMod>, op: &str) -> String {
    let a = args(op);
    if a[0] == "load" {
        let Some(md) = parse_module(a[1]) else { return "bad-op".into() };
        *m = Some(md.functions.iter().map(|(n, f)| (n.clone(), f.arguments.clone(), f.cards.iter().map(t_of).collect())).collect());
        return "ok".into();
    }
    let Some(m) = m.as_mut() else { return "bad-op".into() };
    match a.as_slice() {
        ["get", i] => {
            let (f, idx) = split_idx(i);
            match spec_get(m, f, &idx) {
                Ok(c) => t_tok(c),
                Err(e) => format!("err:{e}"),
            }
        }
        ["replace", i, c] => {
            let (f, idx) = split_idx(i);
            let new = t_of(&parse_card(c).unwrap());
            match spec_get_mut(m, f, &idx) {
                Ok(slot) => t_tok(&std::mem::replace(slot, new)),
                Err(e) => format!("err:{e}"),
            }
        }
        ["insert", i, c] => {
            let (f, idx) = split_idx(i);
            let new = t_of(&parse_card(c).unwrap());
            if m.get(f).is_none() {
                return "err:FunctionNotFound".into();
            }
            if idx.is_empty() {
                return "err:InvalidIndex".into();
            }
            if idx.len() == 1 {
                let cards = &mut m[f].2;
                if idx[0] > cards.len() {
                    return "err:CardNotFound".into();
                }
                cards.insert(idx[0], new);
                return "ok".into();
            }
            let (last, parent_idx) = idx.split_last().unwrap();
            match spec_get_mut(m, f, parent_idx) {
                Err(e) => format!("err:{e}"),
                Ok(p) => {
                    if p.list && *last >= p.list_from {
                        if *last > p.kids.len() {
                            return "err:CardNotFound".into();
                        }
                        p.kids.insert(*last, new);
                        "ok".into()
                    } else if *last < p.kids.len() {
                        p.kids[*last] = new; // fixed slot: replace
                        "ok".into()
                    } else {
                        "err:CardNotFound".into()
                    }
                }
            }
        }
        ["remove", i] => {
            let (f, idx) = split_idx(i);
            if m.get(f).is_none() {
                return "err:FunctionNotFound".into();
            }
            if idx.is_empty() {
                return "err:InvalidIndex".into();
            }
            if idx.len() == 1 {
                let cards = &mut m[f].2;
                if idx[0] >= cards.len() {
                    return "err:CardNotFound".into();
                }
                return t_tok(&cards.remove(idx[0]));
            }
            let (last, parent_idx) = idx.split_last().unwrap();
            match spec_get_mut(m, f, parent_idx) {
                Err(e) => format!("err:{e}"),
                Ok(p) => {
                    if *last >= p.kids.len() {
                        return "err:CardNotFound".into();
                    }
                    if p.list && *last >= p.list_from {
                        t_tok(&p.kids.remove(*last))
                    } else {
                        let ph = placeholder(p, *last);
                        t_tok(&std::mem::replace(&mut p.kids[*last], ph))
                    }
                }
            }
        }
        ["swap", i, j] => {
            let (f1, i1) = split_idx(i);
            let (f2, i2) = split_idx(j);
            // the errors name the index that failed; which of the two is looked up first is an
            // implementation choice: accept any error kind when at least one index is invalid
            let a_ok = spec_get(m, f1, &i1).is_ok();
            let b_ok = spec_get(m, f2, &i2).is_ok();
            if !a_ok || !b_ok {
                return "?err".into();
            }
            if f1 == f2 && i1 == i2 {
                return "ok".into();
            }
            let anc = |x: &[usize], y: &[usize]| y.len() > x.len() && &y[..x.len()] == x;
            if f1 == f2 && (anc(&i1, &i2) || anc(&i2, &i1)) {
                return "err:InvalidSwap".into();
            }
            let ca = spec_get(m, f1, &i1).unwrap().clone();
            let cb = spec_get(m, f2, &i2).unwrap().clone();
            *spec_get_mut(m, f1, &i1).unwrap() = cb;
            *spec_get_mut(m, f2, &i2).unwrap() = ca;
            "ok".into()
        }
        ["walk"] => {
            fn rec(t: &T, path: &mut Vec<usize>, f: usize, out: &mut Vec<String>) {
                for (k, c) in t.kids.iter().enumerate() {
                    path.push(k);
                    out.push(format!("{f}.{}", path.iter().map(|x| x.to_string()).collect::<Vec<_>>().join(".")));
                    rec(c, path, f, out);
                    path.pop();
                }
            }
            let mut out = vec![];
            for (f, fun) in m.iter().enumerate() {
                for (j, c) in fun.2.iter().enumerate() {
                    out.push(format!("{f}.{j}"));
                    let mut path = vec![j];
                    rec(c, &mut path, f, &mut out);
                }
            }
            format!("[{}]", out.join(" "))
        }
        ["walkcheck"] => {
            fn count(t: &T) -> usize {
                1 + t.kids.iter().map(count).sum::<usize>()
            }
            format!("ok {}", m.iter().map(|f| f.2.iter().map(count).sum::<usize>()).sum::<usize>())
        }
        ["children", i] => {
            let (f, idx) = split_idx(i);
            match spec_get(m, f, &idx) {
                Ok(c) => {
                    let n = c.kids.len();
                    let it: Vec<String> = c.kids.iter().map(t_tok).collect();
                    let mut get = it.clone();
                    get.push("-".into());
                    get.push("-".into());
                    format!("num={n} iter=[{}] get=[{}]", it.join(","), get.join(","))
                }
                Err(e) => format!("err:{e}"),
            }
        }
        ["dump"] => "?".into(),
        _ => "bad-op".into(),
    }
}
