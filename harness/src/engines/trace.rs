//! Engine `trc`: error locations (C15). A failing card with unique content is planted at a random
//! position (any child slot of any card kind, any call depth, root or submodule); the error's
//! trace is resolved through the real `Module::get_card` and must name the planted card first and
//! then the call cards of the active chain.
use crate::cards::*;
use crate::engines::compile::payload_name;
use crate::engines::vm::{err_kind, new_vm};
use crate::framework::{Engine, Tier};
use crate::progs::{composite, int};
use crate::rng::Rng;
use cao_lang::compiler::{Card, CardBody, ForEach, Function, Module, Repeat, UnaryExpression};
use cao_lang::prelude::*;

fn c(b: CardBody) -> Card {
    b.into()
}

fn resolve(m: &Module, t: &Trace) -> String {
    let mut cur: Module = {
        let mut mm = m.clone();
        mm.submodules.push(("std".to_string(), cao_lang::stdlib::standard_library()));
        mm
    };
    for ns in t.namespace.iter() {
        match cur.submodules.iter().find(|(n, _)| n.as_str() == ns.as_ref()) {
            Some((_, s)) => cur = s.clone(),
            None => return "no-module".into(),
        }
    }
    match cur.get_card(&t.index) {
        Ok(card) => card_tok(card),
        Err(_) => "unresolved".into(),
    }
}

/// what a trace entry points at: a card, the position of a function's implicit epilogue
/// (`[]`, or one past the last top-level card), or nothing at all
fn resolve_kind(m: &Module, t: &Trace) -> &'static str {
    let mut cur: Module = {
        let mut mm = m.clone();
        mm.submodules.push(("std".to_string(), cao_lang::stdlib::standard_library()));
        mm
    };
    for ns in t.namespace.iter() {
        match cur.submodules.iter().find(|(n, _)| n.as_str() == ns.as_ref()) {
            Some((_, s)) => cur = s.clone(),
            None => return "other",
        }
    }
    if cur.get_card(&t.index).is_ok() {
        return "card";
    }
    let idx: Vec<u32> = t.index.card_index.indices.iter().copied().collect();
    match cur.functions.get(t.index.function) {
        Some((_, f)) if idx.is_empty() || (idx.len() == 1 && idx[0] as usize == f.cards.len()) => "epilogue",
        _ => "other",
    }
}

/// the card that fails at run time, with the error kind it provokes
fn failing_card(rng: &mut Rng, tag: i64) -> (Card, &'static str) {
    match rng.below(12) {
        0 => (Card::call_native("fail", vec![]), "TaskFailure"),
        1 => (Card::call_native(format!("missing{tag}"), vec![int(tag)]), "ProcedureNotFound"),
        2 => (Card::get_property(int(tag), int(1)), "InvalidArgument"),
        3 => (Card::dynamic_call(int(tag), vec![]), "InvalidArgument"),
        4 => (Card::read_var(format!("undefined_global_{tag}")), "VarNotFound"),
        5 => (c(CardBody::Len(UnaryExpression::new(Card::call_native("strlen", vec![int(tag)])))), "TaskFailure"),
        6 => (c(CardBody::Get(Box::new([int(tag), int(0)]))), "InvalidArgument"),
        7 => (c(CardBody::PopTable(UnaryExpression::new(int(tag)))), "InvalidArgument"),
        // the call instruction itself fails: the callee wants more values than the stack holds
        9 => (Card::call_function("needs40", vec![int(tag)]), "MissingArgument"),
        10 => (Card::dynamic_call(c(CardBody::Function("needs40".into())), vec![int(tag)]), "MissingArgument"),
        _ => (Card::call_native("strlen", vec![int(tag)]), "TaskFailure"),
    }
}

/// wrap a value-producing card `e` into a statement, nesting it in a random context.
/// Returns the statement; `e` sits in a value slot somewhere inside.
fn wrap(rng: &mut Rng, e: Card, depth: usize) -> Card {
    if depth == 0 {
        return Card::set_global_var("sink", e);
    }
    let d = depth - 1;
    match rng.below(12) {
        0 => wrap(rng, c(CardBody::Add(Box::new([int(1), e]))), d),
        1 => wrap(rng, c(CardBody::Less(Box::new([e, int(2)]))), d),
        2 => wrap(rng, c(CardBody::Not(UnaryExpression::new(e))), d),
        3 => c(CardBody::IfTrue(Box::new([int(1), wrap(rng, e, d)]))),
        4 => c(CardBody::IfElse(Box::new([int(0), c(CardBody::Comment("then".into())), wrap(rng, e, d)]))),
        5 => c(CardBody::IfTrue(Box::new([e, c(CardBody::Comment("cond failed first".into()))]))),
        6 => c(CardBody::Repeat(Box::new(Repeat { i: Some("ri".into()), n: int(2), body: composite(vec![c(CardBody::Comment("x".into())), wrap(rng, e, d)]) }))),
        7 => c(CardBody::Repeat(Box::new(Repeat { i: None, n: e, body: c(CardBody::Comment("n failed".into())) }))),
        8 => composite(vec![
            Card::set_var("tt", c(CardBody::Array(vec![int(1), int(2)]))),
            c(CardBody::ForEach(Box::new(ForEach { i: None, k: Some("fk".into()), v: None, iterable: Box::new(Card::read_var("tt")), body: Box::new(composite(vec![wrap(rng, e, d)])) }))),
        ]),
        9 => wrap(rng, Card::dynamic_call(Card::native_function_value("log"), vec![e]), d),
        10 => wrap(rng, Card::call_native("sum2", vec![int(1), e]), d),
        _ => c(CardBody::While(Box::new([int(1), composite(vec![wrap(rng, e, d), c(CardBody::Abort)])]))),
    }
}

trait NativeFnValue {
    fn native_function_value(name: &str) -> Card;
}
impl NativeFnValue for Card {
    fn native_function_value(name: &str) -> Card {
        c(CardBody::NativeFunction(name.to_string()))
    }
}

/// builds: main -> f1 -> ... -> f_depth, the last one contains the failing statement; returns the
/// module, the planted card token and the number of call cards on the chain
fn gen_case(rng: &mut Rng) -> (Module, String, usize) {
    let tag = rng.range(1000, 9999);
    let depth = rng.range(0, 3) as usize;
    let nest = rng.range(0, 3) as usize;
    let in_sub = rng.chance(1, 3) && depth > 0;
    // variant: the failing function is function 0 of a module nested in a module whose only
    // function has one card, and its FIRST card is a failing leaf standing as a statement
    let nested_t = in_sub && rng.chance(1, 3);
    let (fail, _kind) = if nested_t {
        if rng.chance(1, 2) { (Card::call_native("fail", vec![]), "TaskFailure") } else { (Card::read_var(format!("undefined_global_{tag}")), "VarNotFound") }
    } else {
        failing_card(rng, tag)
    };
    // the card whose own instruction raises the error (for `len(strlen(..))` the inner call)
    let planted = match &fail.body {
        CardBody::Len(u) => card_tok(&u.card),
        _ => card_tok(&fail),
    };
    let stmt = if nested_t { fail } else { wrap(rng, fail, nest) };
    let filler = |rng: &mut Rng| -> Vec<Card> { (0..rng.range(0, 2)).map(|i| Card::set_global_var(format!("fill{i}"), int(i))).collect() };
    let mut root_fns: Vec<(String, Function)> = vec![];
    let mut sub_fns: Vec<(String, Function)> = vec![];
    // function k calls function k+1
    for k in 0..=depth {
        let name = if k == 0 { "main".to_string() } else { format!("lvl{k}") };
        let mut cards = if nested_t && k == depth { vec![] } else { filler(rng) };
        if k == depth {
            cards.push(stmt.clone());
        } else {
            let callee = format!("lvl{}", k + 1);
            let callee_in_sub = in_sub && k + 1 == depth;
            let target = if callee_in_sub { if nested_t { format!("s.t.{callee}") } else { format!("s.{callee}") } } else { callee };
            let call = match rng.below(9) {
                0..=3 => Card::call_function(target, vec![]),
                4..=7 => Card::dynamic_call(c(CardBody::Function(target)), vec![]),
                // through a host function that re-enters the script (known finding K7: the error is
                // then reported at the host call card and the trap frames add entries; the model
                // predicts the exact trace, so the correspondence still pins the behaviour)
                _ => Card::call_native("callback", vec![c(CardBody::Function(target)), int(0)]),
            };
            cards.push(Card::set_global_var(format!("ret{k}"), call));
        }
        cards.extend(filler(rng));
        let f = Function { arguments: vec![], cards };
        if in_sub && k == depth {
            sub_fns.push((name, f));
        } else {
            root_fns.push((name, f));
        }
    }
    root_fns.push(("needs40".to_string(), Function { arguments: (0..40).map(|i| format!("p{i}")).collect(), cards: vec![] }));
    // main need not be the first function
    if rng.chance(1, 2) {
        root_fns.insert(0, ("first".to_string(), Function { arguments: vec![], cards: vec![Card::set_global_var("never", int(0))] }));
    }
    let mut submodules = vec![];
    if !sub_fns.is_empty() {
        if nested_t {
            // `s` has one one-card function; the failing function is function 0 of the nested
            // module `s.t` (same function index, same first card index, different namespace)
            let inner = Module { submodules: vec![], functions: sub_fns, imports: vec![] };
            let single = ("single".to_string(), Function { arguments: vec![], cards: vec![Card::set_global_var("one", int(1))] });
            submodules.push(("s".to_string(), Module { submodules: vec![("t".to_string(), inner)], functions: vec![single], imports: vec![] }));
        } else {
            sub_fns.insert(0, ("other".to_string(), Function { arguments: vec![], cards: vec![] }));
            submodules.push(("s".to_string(), Module { submodules: vec![], functions: sub_fns, imports: vec![] }));
        }
    }
    (Module { submodules, functions: root_fns, imports: vec![] }, planted, depth)
}

/// compile errors attributable to a card
fn gen_compile_case(rng: &mut Rng) -> (Module, String) {
    let tag = rng.range(1000, 9999);
    let bad = match rng.below(4) {
        0 => Card::call_function(format!("no.such.fn{tag}"), vec![]),
        1 => c(CardBody::Function(format!("nosuch{tag}"))),
        2 => Card::read_var(""),
        _ => Card::set_var("", int(tag)),
    };
    let planted = card_tok(&bad);
    let nest = rng.range(0, 3) as usize;
    let stmt = if matches!(bad.body, CardBody::SetVar(_)) { bad } else { wrap(rng, bad, nest) };
    let m = Module { submodules: vec![], functions: vec![("main".into(), Function { arguments: vec![], cards: vec![Card::set_global_var("a", int(1)), stmt] })], imports: vec![] };
    (m, planted)
}

pub struct TraceEngine;

impl Engine for TraceEngine {
    fn name(&self) -> &'static str {
        "trc"
    }

    fn gen(&self, rng: &mut Rng, _tier: Tier, idx: usize) -> Vec<String> {
        if idx % 5 == 3 {
            // resource errors can strike at any instruction: sweep the budget (and use a small
            // value stack) over a random well-scoped program
            let size = rng.range(1, 4) as usize;
            let mut m = crate::progs::gen_program(rng, &crate::progs::GenOpts { size, with_submodules: idx % 2 == 0 });
            if idx % 10 == 3 {
                // allocation- and push-heavy prefix: string literals, tables and nested operands, so
                // that OutOfMemory / Stackoverflow strike at literals and allocating instructions
                let pos = m.functions.iter().position(|(n, _)| n == "main").unwrap();
                let lit = |rng: &mut Rng| c(CardBody::StringLiteral("x".repeat(rng.range(0, 40) as usize)));
                let mut pre = vec![];
                for k in 0..rng.range(2, 6) {
                    let e = match rng.below(4) {
                        0 => lit(rng),
                        1 => c(CardBody::Add(Box::new([lit(rng), c(CardBody::Add(Box::new([lit(rng), lit(rng)])))]))),
                        2 => c(CardBody::CreateTable),
                        _ => Card::call_native("sum2", vec![lit(rng), c(CardBody::Len(UnaryExpression::new(lit(rng))))]),
                    };
                    pre.push(Card::set_global_var(format!("pre{k}"), e));
                }
                for (k, card) in pre.into_iter().enumerate() {
                    m.functions[pos].1.cards.insert(k, card);
                }
                let upto = rng.range(10, 40);
                let stack = *rng.pick(&[2usize, 3, 4, 5, 6]);
                let mem = *rng.pick(&[409600usize, 150, 300, 500, 900]);
                return vec![format!("trc sweep {} upto={upto} stack={stack} mem={mem}", module_tok(&m))];
            }
            let upto = if _tier == Tier::Quick { rng.range(20, 80) } else { rng.range(40, 200) };
            let stack = *rng.pick(&[256usize, 256, 12, 6]);
            let mem = *rng.pick(&[409600usize, 409600, 600, 1200]);
            return vec![format!("trc sweep {} upto={upto} stack={stack} mem={mem}", module_tok(&m))];
        }
        if idx % 5 == 4 {
            let (m, planted) = gen_compile_case(rng);
            vec![format!("trc compile {} expect={}", module_tok(&m), planted)]
        } else {
            let (m, planted, chain) = gen_case(rng);
            // one time in three the machine has already run another failing program (no clear in
            // between): the trace of the measured run must not depend on it
            // (not when the planted failure is the read of an undefined global: without a clear the
            // globals of the earlier program are still there and the read may succeed)
            let prev = if rng.chance(1, 3) && !planted.contains("756e646566696e6564") {
                let (pm, _, _) = gen_case(rng);
                format!(" prev={}", module_tok(&pm))
            } else {
                String::new()
            };
            vec![format!("trc run {} budget=2000 expect={} chain={}{}", module_tok(&m), planted, chain, prev)]
        }
    }

    fn run_impl(&self, ops: &[String], out: &mut Vec<String>) {
        for op in ops {
            let a: Vec<&str> = op.split(' ').collect();
            let line = match a.as_slice() {
                ["trc", "run", m, rest @ ..] => match parse_module(m) {
                    None => "bad-op".to_string(),
                    Some(module) => match compile(module.clone(), None) {
                        Err(e) => format!("compile-error:{}", payload_name(&e.payload)),
                        Ok(prog) => {
                            let mut vm = new_vm(409600, 256, 256);
                            vm.max_instr = rest.iter().find_map(|x| x.strip_prefix("budget=")).and_then(|v| v.parse().ok()).unwrap_or(1000);
                            // an earlier (failing) run on the same machine, not cleared
                            let prev = rest.iter().find_map(|x| x.strip_prefix("prev=")).and_then(parse_module).and_then(|pm| compile(pm, None).ok());
                            if let Some(pp) = &prev {
                                let _ = vm.run(pp);
                            }
                            match vm.run(&prog) {
                                Ok(()) => "ok".into(),
                                Err(e) => format!("err:{} cards=[{}]", err_kind(&e.payload), e.trace.iter().map(|t| resolve(&module, t)).collect::<Vec<_>>().join(" ; ")),
                            }
                        }
                    },
                },
                ["trc", "sweep", m, rest @ ..] => match parse_module(m) {
                    None => "bad-op".to_string(),
                    Some(module) => match compile(module.clone(), None) {
                        Err(e) => format!("compile-error:{}", payload_name(&e.payload)),
                        Ok(prog) => {
                            let get = |k: &str, d: usize| rest.iter().find_map(|x| x.strip_prefix(k)).and_then(|v| v.parse().ok()).unwrap_or(d);
                            let (upto, stack) = (get("upto=", 50), get("stack=", 256));
                            let (mut errs, mut epi, mut other) = (0, 0, 0);
                            let mut first = String::new();
                            let mut traces: Vec<String> = vec![];
                            let mem = get("mem=", 409600);
                            for b in 1..=upto {
                                let mut vm = new_vm(mem, stack, 64);
                                vm.max_instr = b as u64;
                                if let Err(e) = vm.run(&prog) {
                                    errs += 1;
                                    traces.push(format!("{b}:{}:{}", err_kind(&e.payload), e.trace.iter().map(crate::engines::compile::show_trace).collect::<Vec<_>>().join(";")));
                                    for (k, t) in e.trace.iter().enumerate() {
                                        let kind = resolve_kind(&module, t);
                                        if kind != "card" {
                                            if kind == "epilogue" { epi += 1 } else { other += 1 }
                                            if first.is_empty() {
                                                first = format!(" first=budget:{b},entry:{k},{}:{}", err_kind(&e.payload), crate::engines::compile::show_trace(t));
                                            }
                                        }
                                    }
                                }
                            }
                            format!("sweep errors={errs} unresolved_epilogue={epi} unresolved_other={other}{first} traces=[{}]", traces.join(","))
                        }
                    },
                },
                ["trc", "compile", m, ..] => match parse_module(m) {
                    None => "bad-op".to_string(),
                    Some(module) => match compile(module.clone(), None) {
                        Ok(_) => "ok".into(),
                        Err(e) => format!("err:{} card={}", payload_name(&e.payload), e.loc.as_ref().map(|t| resolve(&module, t)).unwrap_or("-".into())),
                    },
                },
                _ => "bad-op".into(),
            };
            out.push(line);
        }
    }

    /// the first resolved card must be the planted one; the following ones must be the call cards
    /// of the chain, innermost first (optionally followed by the program entry)
    fn run_spec(&self, ops: &[String], impl_out: &[String]) -> Option<Vec<String>> {
        let mut out = vec![];
        for (op, r) in ops.iter().zip(impl_out.iter()) {
            let expect = op.split(' ').find_map(|x| x.strip_prefix("expect=")).unwrap_or("");
            if op.starts_with("trc sweep") {
                // every entry of every error trace resolves to a card
                out.push(if r.contains(" unresolved_epilogue=0 unresolved_other=0") || r.starts_with("compile-error") { r.clone() } else { "every trace entry resolves to a card (unresolved_epilogue=0 unresolved_other=0)".into() });
                continue;
            }
            if op.starts_with("trc compile") {
                let got = r.split(" card=").nth(1).unwrap_or("");
                out.push(if r.starts_with("err:") && got == expect { r.clone() } else { format!("expected a compile error located at {expect}") });
                continue;
            }
            let chain: usize = op.split(' ').find_map(|x| x.strip_prefix("chain=")).and_then(|v| v.parse().ok()).unwrap_or(0);
            if !r.starts_with("err:") {
                out.push("expected the planted card to fail".into());
                continue;
            }
            let cards: Vec<&str> = r.split(" cards=[").nth(1).map(|x| x.trim_end_matches(']')).unwrap_or("").split(" ; ").collect();
            let mut ok = cards.first() == Some(&expect);
            // the chain: exactly `chain` call cards follow
            for k in 0..chain {
                match cards.get(1 + k) {
                    Some(t) if t.starts_with("call(") || t.starts_with("dyncall(") => {}
                    _ => ok = false,
                }
            }
            // at most the program entry after the chain
            if cards.len() > 2 + chain {
                ok = false;
            }
            out.push(if ok { r.clone() } else { format!("trace does not resolve to the planted card {expect} and {chain} call cards") });
        }
        Some(out)
    }

    fn tags(&self, ops: &[String], impl_out: &[String]) -> Vec<String> {
        let mut t = std::collections::BTreeSet::new();
        for (o, r) in ops.iter().zip(impl_out.iter()) {
            t.insert(r.split(' ').next().unwrap_or("").split('(').next().unwrap_or("").to_string());
            if let Some(ch) = o.split(' ').find_map(|x| x.strip_prefix("chain=")) {
                t.insert(format!("depth:{ch}"));
            }
            if o.contains("sub(") {
                t.insert("in-submodule".into());
            }
        }
        t.into_iter().collect()
    }

    fn nontrivial(&self, _ops: &[String], _o: &[String]) -> bool {
        true
    }

    fn shrink_keep_prefix(&self, _ops: &[String]) -> usize {
        0
    }
}
