//! Type-directed generator of well-scoped card programs (and of a malformed stream).
//!
//! "Well-scoped" as in property C01: every value slot is filled by a value-producing card; a card
//! that introduces a (named or hidden) local — `SetVar` on a fresh name, `Array`, `Repeat`,
//! `ForEach` — occurs only at function / loop-body statement level, where the expression stack
//! holds no temporaries. Value-producing cards never stand in statement position (known finding
//! K1 is exercised by a separate stream, see `gen_k1`).
use crate::rng::Rng;
use cao_lang::compiler::{Card, CardBody, ForEach, Function, Module, Repeat};

fn c(b: CardBody) -> Card {
    b.into()
}
fn bin(f: fn(Box<[Card; 2]>) -> CardBody, a: Card, b: Card) -> Card {
    c(f(Box::new([a, b])))
}
pub fn int(i: i64) -> Card {
    c(CardBody::ScalarInt(i))
}
pub fn read(n: &String) -> Card {
    Card::read_var(n.as_str())
}
pub fn composite(cards: Vec<Card>) -> Card {
    Card::composite_card("_", cards)
}

#[derive(Clone)]
pub struct FnSig {
    pub call_name: String, // how `main` / siblings can name it
    pub arity: usize,
}

pub struct Ctx<'a> {
    pub rng: &'a mut Rng,
    pub scopes: Vec<Vec<String>>, // visible locals, innermost last
    pub globals: Vec<String>,
    pub callable: Vec<FnSig>,
    pub fresh: usize,
    pub depth_budget: usize,
    pub in_closure: usize,
    pub allow_return: bool,
}

impl<'a> Ctx<'a> {
    fn locals(&self) -> Vec<String> {
        self.scopes.iter().flatten().cloned().collect()
    }
    fn fresh_name(&mut self, p: &str) -> String {
        self.fresh += 1;
        format!("{p}{}", self.fresh)
    }
    fn table_vars(&self) -> Vec<String> {
        self.locals().into_iter().filter(|n| n.starts_with('t')).collect()
    }
    fn fn_vars(&self) -> Vec<String> {
        self.locals().into_iter().filter(|n| n.starts_with('f')).collect()
    }
    fn num_vars(&self) -> Vec<String> {
        self.locals().into_iter().filter(|n| n.starts_with('x') || n.starts_with('a') || n.starts_with('i')).collect()
    }

    pub fn scalar(&mut self) -> Card {
        match self.rng.below(10) {
            0 => c(CardBody::ScalarNil),
            1 => c(CardBody::ScalarFloat(*self.rng.pick(&[0.5, 1.5, -2.0, 3.0, 0.0]))),
            // (strings that are suffixes of one another; an integer whose last encoded byte equals an opcode)
            2 => c(CardBody::StringLiteral(self.rng.pick(&["", "a", "key", "value", "héllo", "keyvalue", "lue", "é"]).to_string())),
            3 if self.rng.chance(1, 6) => int(*self.rng.pick(&[0x1B00_0000_0000_0000i64, 0x0100_0000_0000_001Bi64, 0x2E00_0000_0000_0000i64])),
            // an integer or real literal whose LAST encoded byte (the most significant one) equals an
            // arbitrary opcode, e.g. Return: a peephole that looks at the last byte must not take an
            // operand for an instruction
            4 if self.rng.chance(1, 4) => {
                // (integers only: reals of that magnitude do not survive serde_json's default float
                // parser bit for bit, which is a third-party matter the ser engine would report)
                let op = if self.rng.chance(1, 2) { 0x16 } else { self.rng.range(1, 0x30) };
                int((op << 56) | self.rng.range(0, 1000))
            }
            _ => int(*self.rng.pick(&[0, 1, 2, 3, 5, 7, -1, 10, 42])),
        }
    }

    /// value-producing card that introduces no local
    pub fn expr(&mut self, depth: usize) -> Card {
        if depth == 0 || self.depth_budget == 0 {
            return self.atom();
        }
        self.depth_budget -= 1;
        let d = depth - 1;
        match self.rng.below(26) {
            0..=3 => {
                let f: fn(Box<[Card; 2]>) -> CardBody = *self.rng.pick(&[CardBody::Add as fn(_) -> _, CardBody::Sub, CardBody::Mul, CardBody::Div]);
                let (a, b) = (self.expr(d), self.expr(d));
                bin(f, a, b)
            }
            4..=6 => {
                let f: fn(Box<[Card; 2]>) -> CardBody = *self.rng.pick(&[CardBody::Less as fn(_) -> _, CardBody::LessOrEq, CardBody::Equals, CardBody::NotEquals]);
                let (a, b) = (self.expr(d), self.expr(d));
                bin(f, a, b)
            }
            7..=8 => {
                let f: fn(Box<[Card; 2]>) -> CardBody = *self.rng.pick(&[CardBody::And as fn(_) -> _, CardBody::Or, CardBody::Xor]);
                let (a, b) = (self.expr(d), self.expr(d));
                bin(f, a, b)
            }
            9 => c(CardBody::Not(cao_lang::compiler::UnaryExpression::new(self.expr(d)))),
            10 => c(CardBody::Len(cao_lang::compiler::UnaryExpression::new(self.expr(d)))),
            11 | 12 => {
                // table read
                let tv = self.table_vars();
                if tv.is_empty() {
                    return self.atom();
                }
                let t = read(self.rng.pick(&tv));
                let k = self.key_expr();
                Card::get_property(t, k)
            }
            13 => {
                let tv = self.table_vars();
                if tv.is_empty() {
                    return self.atom();
                }
                let t = read(self.rng.pick(&tv));
                bin(CardBody::Get, t, int(self.rng.range(0, 2)))
            }
            14 => {
                let tv = self.table_vars();
                if tv.is_empty() {
                    return self.atom();
                }
                c(CardBody::PopTable(cao_lang::compiler::UnaryExpression::new(read(self.rng.pick(&tv)))))
            }
            15..=17 => self.call_expr(d),
            18 => {
                // dynamic call through a function-valued local or an inline function value
                let fv = self.fn_vars();
                let (f, arity) = if !fv.is_empty() && self.rng.chance(2, 3) {
                    let name = self.rng.pick(&fv).clone();
                    let arity = name[1..].split('_').next().and_then(|a| a.parse::<usize>().ok()).unwrap_or(0);
                    (read(&name), arity)
                } else if !self.callable.is_empty() {
                    let sig = self.rng.pick(&self.callable).clone();
                    (c(CardBody::Function(sig.call_name.clone())), sig.arity)
                } else {
                    return self.atom();
                };
                // mostly the declared number of arguments; a wrong count one time in eight
                let n = if self.rng.chance(7, 8) { arity } else { self.rng.range(0, 2) as usize };
                let args: Vec<Card> = (0..n).map(|_| self.expr(d.min(1))).collect();
                Card::dynamic_call(f, args)
            }
            19 => Card::call_native("log", vec![self.expr(d)]),
            20 => Card::call_native("sum2", vec![self.expr(d), self.expr(d)]),
            21 => {
                if self.callable.is_empty() {
                    return self.atom();
                }
                c(CardBody::Function(self.rng.pick(&self.callable).call_name.clone()))
            }
            22 => self.closure(d),
            23 => {
                // standard library on a table variable, with a script callback
                let tv = self.table_vars();
                if tv.is_empty() {
                    return c(CardBody::NativeFunction("log".into()));
                }
                let t = read(self.rng.pick(&tv));
                match self.rng.below(9) {
                    0 => Card::call_function("std.min", vec![t]),
                    1 => Card::call_function("std.max", vec![t]),
                    // (not `std.sorted`: the table may hold values of mixed kinds, whose comparison is
                    // not a total preorder - the result then depends on the sort algorithm; sorting is
                    // exercised on controlled tables by the std engine and below with integer keys)
                    2 => Card::call_function("std.to_array", vec![t]),
                    3 => Card::call_function("std.to_array", vec![t]),
                    4 | 5 => {
                        // key function (key, val) -> some value computed from val
                        let body = match self.rng.below(3) {
                            0 => read(&"val".to_string()),
                            1 => bin(CardBody::Mul, read(&"val".to_string()), int(-1)),
                            _ => Card::call_native("sum2", vec![read(&"val".to_string()), read(&"key".to_string())]),
                        };
                        let f = c(CardBody::Closure(Box::new(Function {
                            arguments: vec!["key".into(), "val".into()],
                            cards: vec![Card::return_card(body)],
                        })));
                        let name = *self.rng.pick(&["std.min_by_key", "std.max_by_key", "std.sorted_by_key"]);
                        // a sort needs a consistent order: integer keys (sum2 coerces both operands)
                        let f = if name == "std.sorted_by_key" {
                            c(CardBody::Closure(Box::new(Function {
                                arguments: vec!["key".into(), "val".into()],
                                cards: vec![Card::return_card(Card::call_native("sum2", vec![read(&"val".to_string()), read(&"key".to_string())]))],
                            })))
                        } else {
                            f
                        };
                        // reversed binding: the *first* supplied argument is the last declared parameter
                        Card::call_function(name, vec![f, t])
                    }
                    _ => {
                        // callback (i, v, k)
                        let body = match self.rng.below(3) {
                            0 => bin(CardBody::Less, read(&"v".to_string()), int(3)),
                            1 => bin(CardBody::Add, read(&"v".to_string()), read(&"i".to_string())),
                            _ => read(&"k".to_string()),
                        };
                        let f = c(CardBody::Closure(Box::new(Function {
                            arguments: vec!["k".into(), "v".into(), "i".into()],
                            cards: vec![Card::return_card(body)],
                        })));
                        let name = *self.rng.pick(&["std.filter", "std.map", "std.any"]);
                        Card::call_function(name, vec![f, t])
                    }
                }
            }
            24 => c(CardBody::CreateTable),
            25 => {
                // a native function VALUE called dynamically (the CallFunction path into native
                // code), with a script callback that loops a little: sort/min/max or the
                // harness' `callback`
                let body_val = if self.rng.chance(1, 2) { "val" } else { "p" };
                let looping = |arg_names: Vec<&str>, ret: &str, n: i64| {
                    c(CardBody::Closure(Box::new(Function {
                        arguments: arg_names.iter().map(|s| s.to_string()).collect(),
                        cards: vec![
                            Card::set_var("cnt", int(0)),
                            bin(CardBody::While, bin(CardBody::Less, read(&"cnt".to_string()), int(n)),
                                composite(vec![Card::set_var("cnt", bin(CardBody::Add, read(&"cnt".to_string()), int(1)))])),
                            Card::return_card(read(&ret.to_string())),
                        ],
                    })))
                };
                let n = self.rng.range(0, 12);
                let tv = self.table_vars();
                if body_val == "val" && !tv.is_empty() {
                    let t = read(self.rng.pick(&tv));
                    let name = *self.rng.pick(&["__sort", "__min", "__max"]);
                    // sorting needs a consistent order: the table may hold values of mixed kinds, for
                    // which the comparison is not a total preorder and the result depends on the sort
                    // algorithm (outside the property) - the sort key is the (integer) loop counter
                    let ret = if name == "__sort" { "cnt" } else { "val" };
                    Card::dynamic_call(c(CardBody::NativeFunction(name.into())), vec![t, looping(vec!["key", "val"], ret, n)])
                } else {
                    let arg = self.scalar();
                    // `pcall` swallows the callee's error (also a Timeout: the budget stays exhausted)
                    let host = *self.rng.pick(&["callback", "pcall", "pcall"]);
                    let n = if host == "pcall" && self.rng.chance(1, 2) { self.rng.range(50, 400) } else { n };
                    if self.rng.chance(1, 2) {
                        Card::dynamic_call(c(CardBody::NativeFunction(host.into())), vec![looping(vec!["p"], "p", n), arg])
                    } else {
                        Card::call_native(host, vec![looping(vec!["p"], "p", n), arg])
                    }
                }
            }
            _ => self.atom(),
        }
    }

    fn key_expr(&mut self) -> Card {
        match self.rng.below(4) {
            0 => c(CardBody::StringLiteral(self.rng.pick(&["a", "key", "value"]).to_string())),
            1 => {
                // loop variables (indices / keys of plain tables) are safe keys
                let nv: Vec<String> = self.locals().into_iter().filter(|n| n.starts_with('i') || n.starts_with('k')).collect();
                if nv.is_empty() { int(0) } else { read(self.rng.pick(&nv)) }
            }
            _ => int(self.rng.range(0, 3)),
        }
    }

    /// a value that is never a table (tables stored in tables could build cycles: K2)
    fn store_value(&mut self) -> Card {
        match self.rng.below(4) {
            0 => {
                let (a, b) = (self.scalar(), self.scalar());
                bin(CardBody::Add, a, b)
            }
            1 => {
                let nv: Vec<String> = self.locals().into_iter().filter(|n| n.starts_with('i')).collect();
                if nv.is_empty() { self.scalar() } else { read(self.rng.pick(&nv)) }
            }
            _ => self.scalar(),
        }
    }

    fn atom(&mut self) -> Card {
        let ls = self.locals();
        match self.rng.below(10) {
            0..=3 if !ls.is_empty() => read(self.rng.pick(&ls)),
            4 | 5 if !self.globals.is_empty() => read(self.rng.pick(&self.globals.clone())),
            6 => {
                // dotted property read `t.key`
                let tv = self.table_vars();
                if tv.is_empty() { self.scalar() } else { read(&format!("{}.{}", self.rng.pick(&tv), self.rng.pick(&["a", "key"]))) }
            }
            _ => self.scalar(),
        }
    }

    fn call_expr(&mut self, d: usize) -> Card {
        if self.callable.is_empty() {
            return self.atom();
        }
        let sig = self.rng.pick(&self.callable).clone();
        let args: Vec<Card> = (0..sig.arity).map(|_| self.expr(d.min(1))).collect();
        Card::call_function(sig.call_name, args)
    }

    /// closures built to stress the capture mechanism: several outer variables captured in an
    /// arbitrary order (open-upvalue list insertion in the middle), written through the closure,
    /// and two-level nesting where the inner closure names a variable of the parent and one of
    /// the grandparent in either order; the result is called on the spot
    fn capture_pattern(&mut self) -> Option<Card> {
        let mut nv = self.num_vars();
        nv.sort();
        nv.dedup();
        if nv.len() < 2 {
            return None;
        }
        // a random permutation of up to four of them
        let mut pick: Vec<String> = vec![];
        while pick.len() < nv.len().min(4) {
            let c = self.rng.pick(&nv).clone();
            if !pick.contains(&c) {
                pick.push(c);
            }
        }
        let weighted = |names: &[String]| -> Card {
            let mut e = int(0);
            for n in names {
                e = bin(CardBody::Add, bin(CardBody::Mul, e, int(10)), read(n));
            }
            e
        };
        Some(match self.rng.below(3) {
            0 => {
                // read in permuted order
                let f = c(CardBody::Closure(Box::new(Function { arguments: vec![], cards: vec![Card::return_card(weighted(&pick))] })));
                Card::dynamic_call(f, vec![])
            }
            1 => {
                // write one of them through the closure, then read all
                let w = pick[pick.len() / 2].clone();
                let f = c(CardBody::Closure(Box::new(Function {
                    arguments: vec![],
                    cards: vec![Card::set_var(w.clone(), bin(CardBody::Add, read(&w), int(1))), Card::return_card(weighted(&pick))],
                })));
                Card::dynamic_call(f, vec![])
            }
            _ => {
                // parent declares its own local; the inner closure names it and grandparent
                // variables, in either order
                let y = self.fresh_name("x");
                let mut names = vec![pick[0].clone(), y.clone()];
                if pick.len() > 1 && self.rng.chance(1, 2) {
                    names.push(pick[1].clone());
                }
                if self.rng.chance(1, 2) {
                    names.reverse();
                }
                let inner = c(CardBody::Closure(Box::new(Function { arguments: vec![], cards: vec![Card::return_card(weighted(&names))] })));
                let outer = c(CardBody::Closure(Box::new(Function { arguments: vec![], cards: vec![Card::set_var(y, int(7)), Card::return_card(inner)] })));
                Card::dynamic_call(Card::dynamic_call(outer, vec![]), vec![])
            }
        })
    }

    fn closure(&mut self, d: usize) -> Card {
        if self.in_closure >= 2 {
            return self.atom();
        }
        if self.in_closure == 0 && self.rng.chance(1, 3) {
            if let Some(c) = self.capture_pattern() {
                return c;
            }
        }
        let arity = self.rng.range(0, 2) as usize;
        let args: Vec<String> = (0..arity).map(|_| self.fresh_name("a")).collect();
        // the closure body is a new compile context: its own locals; outer locals are captured
        self.in_closure += 1;
        let saved_ret = self.allow_return;
        self.allow_return = true;
        self.scopes.push(args.clone());
        let n = self.rng.range(1, 3) as usize;
        let mut cards = self.stmts(n, d.min(2), true);
        if self.rng.chance(2, 3) {
            cards.push(Card::return_card(self.expr(1)));
        }
        self.scopes.pop();
        self.allow_return = saved_ret;
        self.in_closure -= 1;
        c(CardBody::Closure(Box::new(Function { arguments: args, cards })))
    }

    /// `n` statements; `new_locals`: may this level introduce locals?
    pub fn stmts(&mut self, n: usize, depth: usize, new_locals: bool) -> Vec<Card> {
        (0..n).map(|_| self.stmt(depth, new_locals)).collect()
    }

    /// store a value somewhere (never leave it on the stack)
    fn sink(&mut self, value: Card, new_locals: bool, prefix: &str) -> Card {
        let ls = self.locals();
        if new_locals && (ls.is_empty() || self.rng.chance(1, 2)) {
            let n = self.fresh_name(prefix);
            self.scopes.last_mut().unwrap().push(n.clone());
            Card::set_var(n, value)
        } else if !ls.is_empty() && self.rng.chance(1, 2) {
            let same: Vec<String> = ls.iter().filter(|n| n.starts_with(prefix)).cloned().collect();
            let target = if same.is_empty() { self.rng.pick(&ls).clone() } else { self.rng.pick(&same).clone() };
            // keep the naming convention truthful: only overwrite a variable of the same family
            if target.starts_with(prefix) { Card::set_var(target, value) } else { self.set_global(value) }
        } else {
            self.set_global(value)
        }
    }

    fn set_global(&mut self, value: Card) -> Card {
        let g = format!("g{}", self.rng.range(0, 5));
        if !self.globals.contains(&g) {
            self.globals.push(g.clone());
        }
        Card::set_global_var(g, value)
    }

    pub fn stmt(&mut self, depth: usize, new_locals: bool) -> Card {
        let d = depth.saturating_sub(1);
        if self.depth_budget == 0 {
            let v = self.scalar();
            return self.set_global(v);
        }
        self.depth_budget -= 1;
        match self.rng.below(30) {
            0..=5 => {
                let v = self.expr(2);
                self.sink(v, new_locals, "x")
            }
            6 | 7 => {
                let v = self.expr(2);
                self.set_global(v)
            }
            8 | 26 | 27 => {
                // table construction
                let v = if self.rng.chance(1, 2) {
                    c(CardBody::CreateTable)
                } else {
                    let n = self.rng.range(0, 5) as usize;
                    c(CardBody::Array((0..n).map(|_| self.scalar()).collect()))
                };
                if new_locals {
                    let n = self.fresh_name("t");
                    self.scopes.last_mut().unwrap().push(n.clone());
                    Card::set_var(n, v)
                } else if matches!(v.body, CardBody::CreateTable) {
                    self.set_global(v)
                } else {
                    c(CardBody::Comment("array needs statement level".into()))
                }
            }
            9 | 10 => {
                let tv = self.table_vars();
                if tv.is_empty() {
                    return c(CardBody::Comment("no table".into()));
                }
                let t = self.rng.pick(&tv).clone();
                match self.rng.below(3) {
                    0 => Card::set_property(self.store_value(), read(&t), self.key_expr()),
                    1 => bin(CardBody::AppendTable, self.store_value(), read(&t)),
                    _ => Card::set_var(format!("{t}.{}", self.rng.pick(&["a", "key"])), self.store_value()),
                }
            }
            11 => {
                // function / closure values into f-variables
                let v = if self.rng.chance(1, 2) || self.callable.is_empty() {
                    self.closure(2)
                } else {
                    c(CardBody::Function(self.rng.pick(&self.callable).call_name.clone()))
                };
                if new_locals {
                    // the arity is part of the name (`f<arity>_<n>`), so that dynamic calls can
                    // supply the right number of arguments most of the time
                    let arity = match &v.body {
                        CardBody::Closure(f) => f.arguments.len(),
                        CardBody::Function(name) => self.callable.iter().find(|s| &s.call_name == name).map(|s| s.arity).unwrap_or(0),
                        _ => 0,
                    };
                    let n = self.fresh_name(&format!("f{arity}_"));
                    self.scopes.last_mut().unwrap().push(n.clone());
                    Card::set_var(n, v)
                } else {
                    self.set_global(v)
                }
            }
            12 | 13 if depth > 0 => {
                let cond = self.expr(2);
                let body = composite(self.stmts(2, d, false));
                if self.rng.chance(1, 2) { bin(CardBody::IfTrue, cond, body) } else { bin(CardBody::IfFalse, cond, body) }
            }
            14 | 15 if depth > 0 => {
                let cond = self.expr(2);
                let a = composite(self.stmts(2, d, false));
                let b = composite(self.stmts(1, d, false));
                c(CardBody::IfElse(Box::new([cond, a, b])))
            }
            16 | 17 if depth > 0 => {
                let n = self.rng.range(0, 3);
                // the loop variable is a fresh name, or (one time in four) the name of a live
                // numeric local / enclosing loop variable, which it then shadows
                let nv = self.num_vars();
                let i = if self.rng.chance(1, 2) {
                    if !nv.is_empty() && self.rng.chance(1, 4) { Some(self.rng.pick(&nv).clone()) } else { Some(self.fresh_name("i")) }
                } else {
                    None
                };
                self.scopes.push(i.iter().cloned().collect());
                let k = self.rng.range(1, 3) as usize;
                let mut cards = vec![];
                if let Some(iv) = &i {
                    if self.rng.chance(1, 3) {
                        // the body assigns to its own loop variable and publishes it: the loop
                        // control must not be affected
                        cards.push(Card::set_var(iv.clone(), bin(CardBody::Add, read(iv), int(10))));
                        let g = self.set_global(read(iv));
                        cards.push(g);
                    }
                }
                cards.extend(self.stmts(k, d, true));
                let body = composite(cards);
                self.scopes.pop();
                c(CardBody::Repeat(Box::new(Repeat { i, n: int(n), body })))
            }
            18 | 19 if depth > 0 => {
                let tv = self.table_vars();
                if tv.is_empty() {
                    return c(CardBody::Comment("no table to iterate".into()));
                }
                let t = self.rng.pick(&tv).clone();
                let i = if self.rng.chance(1, 2) { Some(self.fresh_name("i")) } else { None };
                let k = if self.rng.chance(1, 2) { Some(self.fresh_name("k")) } else { None };
                let v = if self.rng.chance(2, 3) { Some(self.fresh_name("v")) } else { None };
                // declaration order of the loop locals: v, k, i
                self.scopes.push([&v, &k, &i].iter().filter_map(|x| (*x).clone()).collect());
                let n = self.rng.range(1, 3) as usize;
                let body = composite(self.stmts(n, d, true));
                self.scopes.pop();
                c(CardBody::ForEach(Box::new(ForEach { i, k, v, iterable: Box::new(read(&t)), body: Box::new(body) })))
            }
            20 if depth > 0 && new_locals => {
                // bounded while loop over a fresh counter
                let cn = self.fresh_name("x");
                self.scopes.last_mut().unwrap().push(cn.clone());
                let bound = self.rng.range(0, 3);
                let mut body = self.stmts(1, d, false);
                body.push(Card::set_var(cn.clone(), bin(CardBody::Add, read(&cn), int(1))));
                composite(vec![
                    Card::set_var(cn.clone(), int(0)),
                    bin(CardBody::While, bin(CardBody::Less, read(&cn), int(bound)), composite(body)),
                ])
            }
            21 if self.allow_return => Card::return_card(self.expr(2)),
            22 => c(CardBody::Comment("noop".into())),
            23 | 24 => {
                let v = self.call_expr(2);
                self.sink(v, new_locals, "x")
            }
            25 => {
                let v = Card::call_native("log", vec![self.expr(2)]);
                self.sink(v, new_locals, "x")
            }
            _ => {
                let v = self.expr(3);
                self.sink(v, new_locals, "x")
            }
        }
    }
}

pub struct GenOpts {
    pub size: usize,
    pub with_submodules: bool,
}

/// A whole well-scoped program. `main` ends by publishing some locals into globals so that the
/// final state is observable.
pub fn gen_program(rng: &mut Rng, opts: &GenOpts) -> Module {
    let with_sub = opts.with_submodules;
    // signatures (names as seen from the root module)
    let mut root_fns: Vec<(String, usize)> = vec![];
    let nf = rng.range(0, 3) as usize;
    for i in 0..nf {
        root_fns.push((format!("fn{i}"), rng.range(0, 3) as usize));
    }
    let sub_fns: Vec<(String, usize)> = if with_sub { vec![("fn0".into(), rng.range(0, 2) as usize), ("helper".into(), 1)] } else { vec![] };
    let subsub_fns: Vec<(String, usize)> = if with_sub && rng.chance(1, 2) { vec![("deep".into(), rng.range(0, 2) as usize)] } else { vec![] };

    let mut callable_root: Vec<FnSig> = root_fns.iter().map(|(n, a)| FnSig { call_name: n.clone(), arity: *a }).collect();
    let mut root_imports: Vec<String> = vec![];
    if with_sub {
        callable_root.push(FnSig { call_name: "s.fn0".into(), arity: sub_fns[0].1 });
        root_imports.push("s.helper".into());
        callable_root.push(FnSig { call_name: "helper".into(), arity: 1 });
        if !subsub_fns.is_empty() {
            root_imports.push("s.t".into());
            callable_root.push(FnSig { call_name: "t.deep".into(), arity: subsub_fns[0].1 });
            callable_root.push(FnSig { call_name: "s.t.deep".into(), arity: subsub_fns[0].1 });
        }
    }
    if rng.chance(1, 3) {
        root_imports.push("std.to_array".into());
    }
    // callees never call `main`; a function may call functions declared after it (and itself is
    // excluded to keep most runs short)
    let mut gen_fn = |rng: &mut Rng, name: &str, arity: usize, callable: Vec<FnSig>, size: usize| -> (String, Function) {
        let args: Vec<String> = (0..arity).map(|i| format!("a{i}")).collect();
        let mut ctx = Ctx {
            rng,
            scopes: vec![args.clone()],
            globals: vec!["g0".into()],
            callable,
            fresh: 0,
            depth_budget: 40 + size * 10,
            in_closure: 0,
            allow_return: name != "main",
        };
        let n = ctx.rng.range(1, size as i64 + 1) as usize;
        let mut cards = vec![];
        if name == "main" {
            // the globals every function may read
            for i in 0..5 {
                ctx.globals.push(format!("g{i}"));
                cards.push(Card::set_global_var(format!("g{i}"), int(i)));
            }
        } else {
            for i in 0..5 {
                ctx.globals.push(format!("g{i}"));
            }
        }
        cards.extend(ctx.stmts(n, 2, true));
        if name == "main" {
            // publish the visible locals
            let ls: Vec<String> = ctx.scopes[0].clone();
            for (i, l) in ls.iter().enumerate().take(6) {
                cards.push(Card::set_global_var(format!("out{i}"), read(l)));
            }
        } else if ctx.rng.chance(1, 4) {
            // the last card returns on one path only: the implicit `nil` return must still be there
            let cond = ctx.expr(1);
            let v = ctx.expr(1);
            let other = composite(ctx.stmts(1, 1, false));
            cards.push(match ctx.rng.below(3) {
                0 => c(CardBody::IfElse(Box::new([cond, Card::return_card(v), other]))),
                1 => c(CardBody::IfElse(Box::new([cond, other, Card::return_card(v)]))),
                _ => bin(CardBody::IfTrue, cond, Card::return_card(v)),
            });
        } else if ctx.rng.chance(2, 3) {
            let v = ctx.expr(2);
            cards.push(Card::return_card(v));
        }
        (name.to_string(), Function { arguments: args, cards })
    };

    let mut functions = vec![];
    // main may sit at any position among the root functions
    let main_pos = rng.below(root_fns.len() as u64 + 1) as usize;
    for (i, (n, a)) in root_fns.iter().enumerate() {
        if i == main_pos {
            functions.push(gen_fn(rng, "main", 0, callable_root.clone(), opts.size));
        }
        let callable: Vec<FnSig> = callable_root.iter().filter(|s| &s.call_name != n).cloned().collect();
        functions.push(gen_fn(rng, n, *a, callable, opts.size.min(3)));
    }
    if main_pos >= root_fns.len() {
        functions.push(gen_fn(rng, "main", 0, callable_root.clone(), opts.size));
    }

    let mut submodules = vec![];
    if with_sub {
        let mut sub_callable: Vec<FnSig> = vec![FnSig { call_name: "helper".into(), arity: 1 }];
        let mut sub_imports = vec![];
        if let Some((n, a)) = root_fns.first() {
            sub_imports.push(format!("super.{n}"));
            sub_callable.push(FnSig { call_name: n.clone(), arity: *a });
        }
        let mut sfs = vec![];
        for (n, a) in &sub_fns {
            let callable: Vec<FnSig> = sub_callable.iter().filter(|s| &s.call_name != n).cloned().collect();
            sfs.push(gen_fn(rng, n, *a, if n == "helper" { vec![] } else { callable }, 2));
        }
        let mut subsub = vec![];
        if !subsub_fns.is_empty() {
            let (n, a) = &subsub_fns[0];
            let f = gen_fn(rng, n, *a, vec![], 2);
            subsub.push(("t".to_string(), Module { submodules: vec![], functions: vec![f], imports: vec![] }));
        }
        submodules.push(("s".to_string(), Module { submodules: subsub, functions: sfs, imports: sub_imports }));
    }
    let mut functions = functions;
    if rng.chance(1, 5) {
        // library callbacks nested in library callbacks: the inner closure names a parameter of the
        // outer callback (its parent's local) and a variable of main (its parent's captured
        // variable) - same slot numbers, different capture kinds
        if let Some((_, main)) = functions.iter_mut().find(|(n, _)| n == "main") {
            let lim = rng.range(1, 4);
            let rows: Vec<Vec<i64>> = (0..rng.range(2, 5)).map(|_| (0..rng.range(1, 4)).map(|_| rng.range(0, 7)).collect()).collect();
            let mut cards = vec![Card::set_var("xlim", int(lim)), Card::set_var("ttt", c(CardBody::CreateTable))];
            for (j, r) in rows.iter().enumerate() {
                cards.push(Card::set_var(format!("trow{j}"), c(CardBody::Array(r.iter().map(|v| int(*v)).collect()))));
                cards.push(bin(CardBody::AppendTable, read(&format!("trow{j}")), read(&"ttt".to_string())));
            }
            let inner_fn = *rng.pick(&["std.any", "std.filter", "std.map"]);
            let inner = c(CardBody::Closure(Box::new(Function {
                arguments: vec!["k2".into(), "v2".into(), "i2".into()],
                cards: vec![Card::return_card(bin(CardBody::Equals, read(&"v2".to_string()), bin(CardBody::Mul, c(CardBody::Len(cao_lang::compiler::UnaryExpression::new(read(&"v".to_string())))), read(&"xlim".to_string()))))],
            })));
            let outer = c(CardBody::Closure(Box::new(Function {
                arguments: vec!["k".into(), "v".into(), "i".into()],
                cards: vec![Card::return_card(Card::call_function(inner_fn, vec![inner, read(&"v".to_string())]))],
            })));
            let outer_fn = *rng.pick(&["std.filter", "std.map", "std.any"]);
            cards.push(Card::set_global_var("outlib", Card::call_function(outer_fn, vec![outer, read(&"ttt".to_string())])));
            let at = main.cards.len().min(5);
            for (j, cd) in cards.into_iter().enumerate() {
                main.cards.insert(at + j, cd);
            }
        }
    }
    if rng.chance(1, 4) {
        // script-level table operations on one table (also reached through an alias): explicit
        // integer keys at or above the length followed by appends, nil keys and nil values, pops,
        // lengths in between, a for-each that counts and sums, the table published at the end
        if let Some((_, main)) = functions.iter_mut().find(|(n, _)| n == "main") {
            let t = "tq".to_string();
            let alias = "tqa".to_string();
            let mut cards = vec![Card::set_var(t.clone(), c(CardBody::CreateTable)), Card::set_var(alias.clone(), read(&t))];
            let nops = rng.range(4, 11);
            let mut outs = 0;
            for _ in 0..nops {
                let target = if rng.chance(1, 3) { read(&alias) } else { read(&t) };
                let value = match rng.below(5) {
                    0 => c(CardBody::ScalarNil),
                    1 => c(CardBody::StringLiteral(rng.pick(&["a", "bb", ""]).to_string())),
                    _ => int(rng.range(-2, 9)),
                };
                match rng.below(8) {
                    0..=2 => {
                        let key = match rng.below(6) {
                            0 => c(CardBody::ScalarNil),
                            1 => c(CardBody::StringLiteral(rng.pick(&["a", "key"]).to_string())),
                            _ => int(rng.range(0, 7)),
                        };
                        cards.push(Card::set_property(value, target, key));
                    }
                    3..=5 => cards.push(bin(CardBody::AppendTable, value, target)),
                    6 => {
                        cards.push(Card::set_global_var(format!("outqp{outs}"), c(CardBody::PopTable(cao_lang::compiler::UnaryExpression::new(target)))));
                        outs += 1;
                    }
                    _ => {
                        cards.push(Card::set_global_var(format!("outql{outs}"), c(CardBody::Len(cao_lang::compiler::UnaryExpression::new(target)))));
                        outs += 1;
                    }
                }
            }
            cards.push(Card::set_var("xqn", int(0)));
            cards.push(Card::set_var("xqs", int(0)));
            cards.push(c(CardBody::ForEach(Box::new(ForEach {
                i: Some("iq".into()),
                k: Some("kq".into()),
                v: Some("vq".into()),
                iterable: Box::new(read(&t)),
                body: Box::new(composite(vec![
                    Card::set_var("xqn", bin(CardBody::Add, read(&"xqn".to_string()), int(1))),
                    Card::set_var("xqs", bin(CardBody::Add, read(&"xqs".to_string()), bin(CardBody::Mul, read(&"iq".to_string()), int(3)))),
                ])),
            }))));
            cards.push(Card::set_global_var("outqn", read(&"xqn".to_string())));
            cards.push(Card::set_global_var("outqs", read(&"xqs".to_string())));
            cards.push(Card::set_global_var("outqt", read(&alias)));
            let at = main.cards.len().min(5);
            for (j, cd) in cards.into_iter().enumerate() {
                main.cards.insert(at + j, cd);
            }
        }
    }
    if rng.chance(1, 4) {
        // closures created once per loop iteration, each capturing 1-3 variables of that iteration
        // (and sometimes an uncaptured one in between), collected in a table and called after the loop
        if let Some((_, main)) = functions.iter_mut().find(|(n, _)| n == "main") {
            let k = rng.range(1, 4) as usize;
            let n = rng.range(2, 4);
            let mut body: Vec<Card> = vec![];
            let mut e = int(0);
            for j in 0..k {
                let name = format!("lv{j}");
                body.push(Card::set_var(name.clone(), bin(CardBody::Add, bin(CardBody::Mul, read(&"li".to_string()), int(10 + j as i64)), int(j as i64))));
                if rng.chance(1, 3) {
                    body.push(Card::set_var(format!("lu{j}"), int(99)));
                }
                e = bin(CardBody::Add, bin(CardBody::Mul, e, int(100)), read(&name));
            }
            body.push(bin(CardBody::AppendTable, c(CardBody::Closure(Box::new(Function { arguments: vec![], cards: vec![Card::return_card(e)] }))), read(&"tcl".to_string())));
            let looped = match rng.below(2) {
                0 => c(CardBody::Repeat(Box::new(Repeat { i: Some("li".into()), n: int(n), body: composite(body) }))),
                _ => composite(vec![
                    Card::set_var("li", int(0)),
                    bin(CardBody::While, bin(CardBody::Less, read(&"li".to_string()), int(n)), composite({
                        let mut b = body;
                        b.push(Card::set_var("li", bin(CardBody::Add, read(&"li".to_string()), int(1))));
                        b
                    })),
                ]),
            };
            let at = main.cards.len().min(5);
            let mut extra = vec![Card::set_var("tcl", c(CardBody::CreateTable)), looped];
            for j in 0..n {
                extra.push(Card::set_global_var(format!("outl{j}"), Card::dynamic_call(Card::get_property(read(&"tcl".to_string()), int(j)), vec![])));
            }
            for (j, cd) in extra.into_iter().enumerate() {
                main.cards.insert(at + j, cd);
            }
        }
    }
    if rng.chance(1, 4) {
        // closures that outlive their creator WITHOUT being returned: `stash(p)` captures its
        // parameter and a local and appends the closure to a global table, then falls off its end;
        // two factories with a closure at the same card path but different bodies; a closure
        // nested in a closure created once per loop iteration (captured through two levels)
        let stash = Function {
            arguments: vec!["sp".into()],
            cards: vec![
                Card::set_var("sl", bin(CardBody::Mul, read(&"sp".to_string()), int(2))),
                bin(CardBody::AppendTable, c(CardBody::Closure(Box::new(Function { arguments: vec![], cards: vec![Card::return_card(bin(CardBody::Add, read(&"sp".to_string()), read(&"sl".to_string())))] }))), read(&"gstash".to_string())),
            ],
        };
        let mk = |k: i64| Function {
            arguments: vec![],
            cards: vec![
                Card::set_var("mv", int(k)),
                Card::return_card(c(CardBody::Closure(Box::new(Function { arguments: vec![], cards: vec![Card::return_card(bin(CardBody::Add, read(&"mv".to_string()), int(k * 100)))] })))),
            ],
        };
        functions.push(("stash".to_string(), stash));
        functions.push(("mka".to_string(), mk(1)));
        functions.push(("mkb".to_string(), mk(2)));
        if let Some((_, main)) = functions.iter_mut().find(|(n, _)| n == "main") {
            let at = main.cards.len().min(5);
            let n = rng.range(2, 4);
            let nested_loop = c(CardBody::Repeat(Box::new(Repeat {
                i: Some("ni".into()),
                n: int(n),
                body: composite(vec![
                    Card::set_var("nv", bin(CardBody::Mul, read(&"ni".to_string()), int(7))),
                    bin(CardBody::AppendTable, c(CardBody::Closure(Box::new(Function { arguments: vec![], cards: vec![Card::return_card(c(CardBody::Closure(Box::new(Function { arguments: vec![], cards: vec![Card::return_card(read(&"nv".to_string()))] }))))] }))), read(&"tnest".to_string())),
                ]),
            })));
            let mut extra = vec![
                Card::set_global_var("gstash", c(CardBody::CreateTable)),
                Card::set_var("xs1", Card::call_function("stash", vec![int(7)])),
                Card::set_var("xs2", Card::call_function("stash", vec![int(20)])),
                Card::set_global_var("outs1", Card::dynamic_call(Card::get_property(read(&"gstash".to_string()), int(0)), vec![])),
                Card::set_global_var("outs2", Card::dynamic_call(Card::get_property(read(&"gstash".to_string()), int(1)), vec![])),
                Card::set_var("fa0_1", Card::call_function("mka", vec![])),
                Card::set_var("fb0_1", Card::call_function("mkb", vec![])),
                Card::set_global_var("outma", Card::dynamic_call(read(&"fa0_1".to_string()), vec![])),
                Card::set_global_var("outmb", Card::dynamic_call(read(&"fb0_1".to_string()), vec![])),
                Card::set_var("tnest", c(CardBody::CreateTable)),
                nested_loop,
            ];
            for j in 0..n {
                extra.push(Card::set_global_var(format!("outn{j}"), Card::dynamic_call(Card::dynamic_call(Card::get_property(read(&"tnest".to_string()), int(j)), vec![]), vec![])));
            }
            for (j, cd) in extra.into_iter().enumerate() {
                main.cards.insert(at + j, cd);
            }
        }
    }
    if rng.chance(1, 3) {
        // a closure factory: k locals captured in a random order (and one of them written), the
        // closure is returned and called after the factory's frame is gone, from a deeper stack
        let k = rng.range(3, 5) as usize;
        let names: Vec<String> = (0..k).map(|i| format!("cv{i}")).collect();
        let mut order: Vec<usize> = vec![];
        while order.len() < k {
            let c = rng.below(k as u64) as usize;
            if !order.contains(&c) {
                order.push(c);
            }
        }
        let mut e = int(0);
        for &i in &order {
            e = bin(CardBody::Add, bin(CardBody::Mul, e, int(10)), read(&names[i]));
        }
        let mut body = vec![];
        if rng.chance(1, 2) {
            let w = &names[order[k / 2]];
            body.push(Card::set_var(w.clone(), bin(CardBody::Add, read(w), int(1))));
        }
        body.push(Card::return_card(e));
        let mut cards: Vec<Card> = names.iter().enumerate().map(|(i, n)| Card::set_var(n.clone(), int(i as i64 + 1))).collect();
        cards.push(Card::return_card(c(CardBody::Closure(Box::new(Function { arguments: vec![], cards: body })))));
        functions.push(("mkclosure".to_string(), Function { arguments: vec![], cards }));
        if let Some((_, main)) = functions.iter_mut().find(|(n, _)| n == "main") {
            let at = main.cards.len().min(5);
            let extra = vec![
                Card::set_var("fc0_9", Card::call_function("mkclosure", vec![])),
                Card::set_var("xpad", int(40)),
                Card::set_global_var("outc1", bin(CardBody::Add, int(1), Card::dynamic_call(read(&"fc0_9".to_string()), vec![]))),
                Card::set_global_var("outc2", Card::dynamic_call(read(&"fc0_9".to_string()), vec![])),
            ];
            for (j, cd) in extra.into_iter().enumerate() {
                main.cards.insert(at + j, cd);
            }
        }
    }
    Module { submodules, functions, imports: root_imports }
}

/// Malformed / boundary stream for the front end: bad names, duplicates, unresolved calls, bad
/// imports, too many `super.`, empty variable names, many globals/locals.
pub fn gen_malformed(rng: &mut Rng) -> Module {
    let mut m = gen_program(rng, &GenOpts { size: 2, with_submodules: true });
    let body = |cards: Vec<Card>| Function { arguments: vec![], cards };
    // one time in six the offending name is long and non-ASCII (error payloads copy the name)
    let long_name = |rng: &mut Rng| -> String {
        let n = rng.range(50, 110) as usize;
        format!("{}{}", "x".repeat(rng.range(0, 3) as usize), "é".repeat(n))
    };
    if rng.chance(1, 6) {
        let nm = long_name(rng);
        match rng.below(6) {
            0 => m.functions[0].1.cards.push(Card::set_var("q", Card::call_function(nm, vec![]))),
            1 => {
                m.functions.push((nm.clone(), body(vec![int(1)])));
                m.functions.push((nm, body(vec![int(2)])));
            }
            2 => {
                m.submodules.push((nm.clone(), Module::default()));
                m.submodules.push((nm, Module::default()));
            }
            3 => m.functions.push((format!("{nm} bad"), body(vec![]))),
            4 => m.imports.push(nm),
            _ => {
                m.imports.push(format!("a.{nm}"));
                m.imports.push(format!("b.{nm}"));
            }
        }
        return m;
    }
    match rng.below(24) {
        22 | 23 => {
            // imports are per module: a module without imports does not see its parent's
            let util_f = ("f".to_string(), body(vec![Card::return_card(int(1))]));
            let child_calls = |name: &str| Module { functions: vec![("g".into(), body(vec![Card::set_var("q", Card::call_function(name, vec![]))]))], ..Default::default() };
            let a = match rng.below(5) {
                3 | 4 => {
                    // `super.` counted against the depth of the importing module: a chain of `depth`
                    // modules below `aa`, the innermost imports through k levels (k up to depth + 3)
                    // either the function (`super.….lib.helper`, called as `helper`) or the module
                    // (`super.….lib`, called as `lib.helper`); `lib` sits where k = `at` levels up lands
                    let depth = rng.range(1, 4) as usize;
                    let k = rng.range(1, depth as i64 + 4) as usize;
                    let at = rng.range(1, depth as i64 + 2) as usize;
                    let by_module = rng.chance(1, 2);
                    let sup = "super.".repeat(k);
                    let (import, callee) = if by_module { (format!("{sup}lib"), "lib.helper") } else { (format!("{sup}lib.helper"), "helper") };
                    let lib = Module { functions: vec![("helper".into(), body(vec![Card::return_card(int(7))]))], ..Default::default() };
                    let mut node = child_calls(callee);
                    node.imports.push(import);
                    // levels are counted from the innermost module (level 0) upwards
                    for lvl in 1..=depth {
                        let mut parent = Module { functions: vec![("own".into(), body(vec![int(1)]))], ..Default::default() };
                        parent.submodules.push((format!("m{lvl}"), node));
                        if lvl == at {
                            parent.submodules.push(("lib".into(), lib.clone()));
                        }
                        node = parent;
                    }
                    if at > depth {
                        m.submodules.push(("lib".into(), lib.clone()));
                    }
                    node
                }
                0 => Module {
                    imports: vec!["super.util.f".into()],
                    functions: vec![("own".into(), body(vec![int(1)]))],
                    submodules: vec![("util".into(), Module { functions: vec![util_f], ..Default::default() }), ("b".into(), child_calls("f"))],
                },
                1 => Module {
                    imports: vec!["lib.b".into()],
                    functions: vec![("own".into(), body(vec![int(1)]))],
                    submodules: vec![("c".into(), {
                        let mut c = child_calls("b.f");
                        c.submodules.push(("lib".into(), Module { submodules: vec![("b".into(), Module { functions: vec![util_f], ..Default::default() })], ..Default::default() }));
                        c
                    })],
                },
                _ => Module {
                    imports: vec!["super.super.f".into()],
                    functions: vec![util_f],
                    submodules: vec![("b".into(), Module { submodules: vec![("c".into(), child_calls("f"))], ..Default::default() })],
                },
            };
            m.submodules.push(("aa".into(), a));
        }
        16..=21 => {
            // a defect deep in the tree: below a chain of 0-3 single-child modules hanging off a
            // random module, a module with one of the module-level defects
            let mut bad = Module::default();
            bad.functions.push(("ok".into(), body(vec![int(1)])));
            match rng.below(6) {
                0 => {
                    bad.submodules.push(("c".into(), Module { functions: vec![("f1".into(), body(vec![]))], ..Default::default() }));
                    bad.submodules.push(("c".into(), Module { functions: vec![("f2".into(), body(vec![]))], ..Default::default() }));
                }
                1 => bad.functions.push(("ok".into(), body(vec![int(2)]))),
                2 => bad.functions.push((rng.pick(&["", "a b", "super", "x.y"]).to_string(), body(vec![]))),
                3 => bad.submodules.push((rng.pick(&["", "a b", "super", "x.y"]).to_string(), Module::default())),
                4 => bad.imports.push("nodots".into()),
                _ => {
                    bad.imports.push("a.same".into());
                    bad.imports.push("b.same".into());
                }
            }
            let mut node = bad;
            for d in 0..rng.range(0, 3) {
                let mut parent = Module::default();
                if rng.chance(1, 3) {
                    parent.submodules.push((format!("sib{d}"), Module::default()));
                }
                parent.submodules.push((format!("d{d}"), node));
                node = parent;
            }
            // attach below a random module of the generated tree
            fn modules_mut<'a>(m: &'a mut Module, out: &mut Vec<*mut Module>) {
                out.push(m as *mut Module);
                for (_, s) in m.submodules.iter_mut() {
                    modules_mut(s, out);
                }
            }
            let mut all = vec![];
            modules_mut(&mut m, &mut all);
            let target = *rng.pick(&all);
            // SAFETY: the pointers come from one exclusive traversal of `m`, which is not touched
            // in between; exactly one of them is dereferenced
            unsafe { (*target).submodules.push(("deep".into(), node)) };
        }
        0 => m.functions.push(("bad name".into(), body(vec![]))),
        1 => m.functions.push(("".into(), body(vec![]))),
        2 => m.functions.push(("super".into(), body(vec![]))),
        3 => {
            let f = m.functions[0].clone();
            m.functions.push(f);
        }
        4 => m.submodules[0].1.functions.push(("fn0".into(), body(vec![int(1)]))),
        5 => {
            let s = m.submodules[0].clone();
            m.submodules.push(s);
        }
        6 => m.submodules.push(("std".into(), Module::default())),
        7 => m.submodules.push((rng.pick(&["", "a.b", "super", "x y"]).to_string(), Module::default())),
        8 => m.imports.push("nodots".into()),
        9 => {
            m.imports.push("s.helper".into());
            m.imports.push("s.t.helper".into());
        }
        10 => m.imports.push("super.super.x".into()),
        11 => {
            m.submodules[0].1.imports.push("super.super.super.fn0".into());
            m.submodules[0].1.functions[0].1.cards.push(Card::set_var("q", Card::call_function("fn0", vec![])));
        }
        12 => m.functions[0].1.cards.push(Card::set_var("q", Card::call_function("does.not.exist", vec![]))),
        13 => m.functions[0].1.cards.push(Card::set_var("", int(1))),
        14 => m.functions.retain(|(n, _)| n != "main"),
        _ => {
            // a root function named like a stdlib function, and many globals
            m.functions.push(("map".into(), body(vec![int(1)])));
            for i in 0..rng.range(15, 40) {
                m.functions[0].1.cards.push(Card::set_global_var(format!("many{i}"), int(i)));
            }
        }
    }
    m
}

/// Allocation-heavy well-scoped programs: strings, tables, rows, closures, library calls with
/// allocating callbacks — the places where a collection can strike in the middle of an operation.
pub fn gen_alloc_program(rng: &mut Rng, size: usize, with_submodules: bool) -> Module {
    let mut m = gen_program(rng, &GenOpts { size, with_submodules });
    let pos = m.functions.iter().position(|(n, _)| n == "main").unwrap();
    let mut pre: Vec<Card> = vec![];
    // t0: a table with a few entries; s0: strings
    pre.push(Card::set_var("t0", c(CardBody::Array((0..rng.range(1, 5)).map(|i| int(10 - i)).collect()))));
    pre.push(Card::set_var("t00", c(CardBody::CreateTable)));
    // (up to 15 rows: the hash part grows at the 6th, 9th and 13th key, with values that only
    // the table references)
    let n = if rng.chance(1, 2) { rng.range(1, 6) } else { rng.range(6, 16) };
    pre.push(c(CardBody::Repeat(Box::new(Repeat {
        i: Some("i0".into()),
        n: int(n),
        body: composite(vec![
            Card::set_property(c(CardBody::StringLiteral("payload".into())), read(&"t00".to_string()), read(&"i0".to_string())),
            bin(CardBody::AppendTable, Card::call_native("mktable", vec![read(&"i0".to_string())]), read(&"t0".to_string())),
            Card::set_var("row", bin(CardBody::Get, read(&"t0".to_string()), int(0))),
        ]),
    }))));
    match rng.below(6) {
        4 | 5 => {
            // min/max by a key function that returns FRESH heap keys of different order rank
            // (strings compare by length): the best key changes in the middle of the scan and
            // later keys are allocated while the native holds the best one
            let vals: Vec<i64> = (0..rng.range(3, 7)).map(|_| rng.range(0, 5)).collect();
            pre.push(Card::set_var("t5", c(CardBody::Array(vals.iter().map(|v| int(*v)).collect()))));
            let pivot = rng.range(1, 4);
            let short = "s".repeat(rng.range(0, 2) as usize);
            let long = "l".repeat(rng.range(3, 6) as usize);
            let keyfn = c(CardBody::Closure(Box::new(Function {
                arguments: vec!["key".into(), "val".into()],
                cards: vec![
                    bin(CardBody::IfTrue, bin(CardBody::Less, read(&"val".to_string()), int(pivot)), Card::return_card(c(CardBody::StringLiteral(short)))),
                    Card::return_card(c(CardBody::StringLiteral(long))),
                ],
            })));
            let name = *rng.pick(&["std.min_by_key", "std.max_by_key", "std.sorted_by_key"]);
            pre.push(Card::set_global_var("outa", Card::call_function(name, vec![keyfn, read(&"t5".to_string())])));
        }
        0 => pre.push(Card::set_global_var("outa", Card::call_function("std.sorted_by_key", vec![
            c(CardBody::Closure(Box::new(Function { arguments: vec!["key".into(), "val".into()], cards: vec![Card::return_card(Card::call_native("mktable", vec![read(&"key".to_string())]))] }))),
            read(&"t00".to_string()),
        ]))),
        1 => pre.push(Card::set_global_var("outa", Card::call_function("std.map", vec![
            c(CardBody::Closure(Box::new(Function { arguments: vec!["k".into(), "v".into(), "i".into()], cards: vec![Card::return_card(c(CardBody::Array(vec![read(&"k".to_string()), read(&"v".to_string())])))] }))),
            read(&"t0".to_string()),
        ]))),
        2 => pre.push(Card::set_global_var("outa", Card::dynamic_call(
            c(CardBody::Closure(Box::new(Function { arguments: vec!["p".into()], cards: vec![Card::set_var("q", c(CardBody::Array(vec![read(&"p".to_string()), c(CardBody::StringLiteral("zz".into()))]))), Card::return_card(read(&"q".to_string()))] }))),
            vec![c(CardBody::StringLiteral("arg".into()))],
        ))),
        _ => pre.push(Card::set_global_var("outa", Card::call_function("std.min", vec![read(&"t0".to_string())]))),
    }
    if rng.chance(1, 2) {
        // a host function whose table argument only lives in the argument slot, with a callback
        // that allocates (the wrapper must keep the argument reachable during the call)
        pre.push(Card::set_global_var("outd", Card::call_native("callback", vec![
            c(CardBody::Closure(Box::new(Function { arguments: vec!["p".into()], cards: vec![Card::set_var("q", c(CardBody::Array(vec![int(1), int(2)]))), Card::return_card(read(&"p".to_string()))] }))),
            // (not an `Array` card: its hidden local would overwrite the pending first argument)
            Card::call_native("mktable", vec![c(CardBody::StringLiteral("only-here".into()))]),
        ])));
        // typed host functions of arity 3 and 4 whose arguments are fresh temporaries: they
        // allocate before they use them
        pre.push(Card::set_global_var("outh3", Card::call_native("three", vec![
            c(CardBody::StringLiteral("first-arg".into())),
            Card::call_native("mktable", vec![c(CardBody::StringLiteral("second".into()))]),
            c(CardBody::StringLiteral("third".into())),
        ])));
        pre.push(Card::set_global_var("outh4", Card::call_native("four", vec![
            c(CardBody::StringLiteral("a1".into())),
            c(CardBody::StringLiteral("a2".into())),
            Card::call_native("mktable", vec![int(3)]),
            c(CardBody::StringLiteral("a4-returned".into())),
        ])));
        pre.push(Card::set_global_var("oute", Card::call_native("__to_array", vec![c(CardBody::Array(vec![c(CardBody::StringLiteral("x".into())), c(CardBody::StringLiteral("y".into()))]))])));
        let keyfn = c(CardBody::Closure(Box::new(Function { arguments: vec!["key".into(), "val".into()], cards: vec![Card::set_var("junk", c(CardBody::Array(vec![int(7)]))), Card::return_card(read(&"val".to_string()))] })));
        let name = *rng.pick(&["__sort", "__min", "__max"]);
        // the table argument is a fresh temporary (an `Array` card would keep it in a hidden local)
        let fresh = Card::dynamic_call(
            c(CardBody::Closure(Box::new(Function { arguments: vec![], cards: vec![Card::return_card(c(CardBody::Array(vec![int(3), int(1), int(2)])))] }))),
            vec![],
        );
        pre.push(Card::set_global_var("outf", Card::call_native(name, vec![fresh, keyfn])));
        pre.push(Card::set_global_var("outg", Card::call_native("__to_array", vec![Card::call_native("mktable", vec![c(CardBody::StringLiteral("fresh".into()))])])));
    }
    if rng.chance(1, 2) {
        // a table used as a KEY of another table and mutated afterwards: its content hash changes,
        // so it no longer finds its own entry - the entry is still stored (and found again once
        // the key has its old content back); with a value that only this entry references
        let kv = rng.range(1, 4);
        pre.push(Card::set_var("kt", c(CardBody::CreateTable)));
        pre.push(Card::set_property(int(kv), read(&"kt".to_string()), c(CardBody::StringLiteral("x".into()))));
        pre.push(Card::set_var("kh", c(CardBody::CreateTable)));
        if rng.chance(1, 2) {
            pre.push(Card::set_property(int(5), read(&"kh".to_string()), int(rng.range(0, 3))));
        }
        let val = if rng.chance(1, 2) { c(CardBody::StringLiteral("only the entry holds me".into())) } else { Card::call_native("mktable", vec![c(CardBody::StringLiteral("inner".into()))]) };
        pre.push(Card::set_property(val, read(&"kh".to_string()), read(&"kt".to_string())));
        pre.push(Card::set_property(int(kv + 1), read(&"kt".to_string()), c(CardBody::StringLiteral("x".into()))));
        // allocations while the key does not find its entry
        pre.push(Card::set_var("junk1", c(CardBody::StringLiteral("garbage one".into()))));
        pre.push(Card::set_var("junk2", Card::call_native("mktable", vec![int(1)])));
        // (the table is only read again once the key has its old content back: what a lookup
        // through a mutated key finds depends on probe positions and is not modelled)
        pre.push(Card::set_property(int(kv), read(&"kt".to_string()), c(CardBody::StringLiteral("x".into()))));
        pre.push(Card::set_var("junk3", c(CardBody::StringLiteral("garbage two".into()))));
        pre.push(Card::set_global_var("outk2", bin(CardBody::GetProperty, read(&"kh".to_string()), read(&"kt".to_string()))));
        pre.push(Card::set_global_var("outk0", read(&"kh".to_string())));
    }
    if rng.chance(1, 12) {
        // a ghost entry: a table key is mutated, then the entry is popped - the key list forgets it,
        // the hash part (which looks the key up by its current content) keeps it; the key object is
        // then only referenced from that slot. A later lookup with the key's ORIGINAL content lands
        // on the slot by hash and compares with the stored key. (Below the model's abstraction:
        // cases with the global `gghostkey` are not compared with the model; the schedule oracle
        // and, in the thorough tier, memcheck decide them.)
        pre.push(Card::set_var("kt2", c(CardBody::CreateTable)));
        pre.push(Card::set_property(int(1), read(&"kt2".to_string()), c(CardBody::StringLiteral("x".into()))));
        pre.push(Card::set_var("ko", c(CardBody::CreateTable)));
        pre.push(Card::set_property(c(CardBody::StringLiteral("ghost value".into())), read(&"ko".to_string()), read(&"kt2".to_string())));
        pre.push(Card::set_property(int(2), read(&"kt2".to_string()), c(CardBody::StringLiteral("x".into()))));
        pre.push(Card::set_var("popped", c(CardBody::PopTable(cao_lang::compiler::UnaryExpression::new(read(&"ko".to_string()))))));
        pre.push(Card::set_var("kt2", c(CardBody::ScalarNil)));
        pre.push(Card::set_var("junk4", c(CardBody::StringLiteral("garbage three".into()))));
        pre.push(Card::set_var("k3", c(CardBody::CreateTable)));
        pre.push(Card::set_property(int(1), read(&"k3".to_string()), c(CardBody::StringLiteral("x".into()))));
        pre.push(Card::set_global_var("gghostkey", bin(CardBody::GetProperty, read(&"ko".to_string()), read(&"k3".to_string()))));
    }
    if rng.chance(1, 3) {
        // a key function that REMOVES rows from the table the library function iterates (through a
        // global alias) and allocates: the rows the native copied are then only held by the native
        let n = rng.range(3, 6);
        pre.push(Card::set_var("t6", c(CardBody::Array((0..n).map(|i| c(CardBody::StringLiteral("row".to_string() + &"x".repeat((n - i) as usize)))).collect()))));
        pre.push(Card::set_global_var("gpoprows", read(&"t6".to_string())));
        let keyfn = c(CardBody::Closure(Box::new(Function {
            arguments: vec!["key".into(), "val".into()],
            cards: vec![
                c(CardBody::PopTable(cao_lang::compiler::UnaryExpression::new(read(&"gpoprows".to_string())))),
                Card::set_var("junk", c(CardBody::StringLiteral("garbage made by the key function".into()))),
                Card::return_card(read(&"val".to_string())),
            ],
        })));
        let name = *rng.pick(&["std.min_by_key", "std.max_by_key", "std.sorted_by_key"]);
        pre.push(Card::set_global_var("outp", Card::call_function(name, vec![keyfn, read(&"t6".to_string())])));
    }
    pre.push(Card::set_global_var("outb", read(&"t0".to_string())));
    pre.push(Card::set_global_var("outc", read(&"t00".to_string())));
    let f = &mut m.functions[pos].1;
    // after the five global initialisers
    let at = f.cards.len().min(5);
    for (k, c) in pre.into_iter().enumerate() {
        f.cards.insert(at + k, c);
    }
    m
}
