//! Token syntax <-> real `cao_lang::compiler::{Card, Module, Function}` values, and type-directed
//! generators of cards / functions / modules.
use crate::rng::Rng;
use cao_lang::compiler::{
    CallNode, Card, CardBody, CompositeCard, DynamicJump, ForEach, Function, Module, Repeat, SetVar,
    StaticJump, UnaryExpression,
};

pub fn hex(s: &str) -> String {
    format!("${}", s.bytes().map(|b| format!("{b:02x}")).collect::<String>())
}

fn opt_hex(s: &Option<String>) -> String {
    match s {
        None => "?".into(),
        Some(s) => hex(s),
    }
}

fn cards_tok(cs: &[Card]) -> String {
    format!("[{}]", cs.iter().map(card_tok).collect::<Vec<_>>().join(","))
}

pub fn card_tok(c: &Card) -> String {
    let b2 = |n: &str, e: &[Card; 2]| format!("{n}({},{})", card_tok(&e[0]), card_tok(&e[1]));
    let u1 = |n: &str, e: &UnaryExpression| format!("{n}({})", card_tok(&e.card));
    match &c.body {
        CardBody::Add(e) => b2("add", e),
        CardBody::Sub(e) => b2("sub", e),
        CardBody::Mul(e) => b2("mul", e),
        CardBody::Div(e) => b2("div", e),
        CardBody::Less(e) => b2("less", e),
        CardBody::LessOrEq(e) => b2("lesseq", e),
        CardBody::Equals(e) => b2("eq", e),
        CardBody::NotEquals(e) => b2("neq", e),
        CardBody::And(e) => b2("and", e),
        CardBody::Or(e) => b2("or", e),
        CardBody::Xor(e) => b2("xor", e),
        CardBody::GetProperty(e) => b2("getprop", e),
        CardBody::IfTrue(e) => b2("iftrue", e),
        CardBody::IfFalse(e) => b2("iffalse", e),
        CardBody::While(e) => b2("while", e),
        CardBody::Get(e) => b2("get", e),
        CardBody::AppendTable(e) => b2("append", e),
        CardBody::Not(e) => u1("not", e),
        CardBody::Return(e) => u1("return", e),
        CardBody::Len(e) => u1("len", e),
        CardBody::PopTable(e) => u1("pop", e),
        CardBody::IfElse(e) => format!("ifelse({},{},{})", card_tok(&e[0]), card_tok(&e[1]), card_tok(&e[2])),
        CardBody::SetProperty(e) => format!("setprop({},{},{})", card_tok(&e[0]), card_tok(&e[1]), card_tok(&e[2])),
        CardBody::ScalarNil => "nil".into(),
        CardBody::CreateTable => "table".into(),
        CardBody::Abort => "abort".into(),
        CardBody::ScalarInt(i) => format!("int(#{i})"),
        CardBody::ScalarFloat(f) => format!("float(${:016x})", f.to_bits()),
        CardBody::StringLiteral(s) => format!("str({})", hex(s)),
        CardBody::Comment(s) => format!("comment({})", hex(s)),
        CardBody::Function(s) => format!("function({})", hex(s)),
        CardBody::NativeFunction(s) => format!("nativefn({})", hex(s)),
        CardBody::ReadVar(s) => format!("readvar({})", hex(s)),
        CardBody::SetVar(s) => format!("setvar({},{})", hex(&s.name), card_tok(&s.value)),
        CardBody::SetGlobalVar(s) => format!("setglobal({},{})", hex(&s.name), card_tok(&s.value)),
        CardBody::CallNative(c) => format!("callnative({},{})", hex(&c.name), cards_tok(&c.args.0)),
        CardBody::Call(c) => format!("call({},{})", hex(&c.function_name), cards_tok(&c.args.0)),
        CardBody::Repeat(r) => format!("repeat({},{},{})", opt_hex(&r.i), card_tok(&r.n), card_tok(&r.body)),
        CardBody::ForEach(f) => format!(
            "foreach({},{},{},{},{})",
            opt_hex(&f.i),
            opt_hex(&f.k),
            opt_hex(&f.v),
            card_tok(&f.iterable),
            card_tok(&f.body)
        ),
        CardBody::CompositeCard(c) => format!("composite({},{})", hex(&c.ty), cards_tok(&c.cards)),
        CardBody::DynamicCall(d) => format!("dyncall({},{})", cards_tok(&d.args.0), card_tok(&d.function)),
        CardBody::Array(a) => format!("array({})", cards_tok(a)),
        CardBody::Closure(f) => format!(
            "closure([{}],{})",
            f.arguments.iter().map(|a| hex(a)).collect::<Vec<_>>().join(","),
            cards_tok(&f.cards)
        ),
    }
}

pub fn func_tok(name: &str, f: &Function) -> String {
    format!(
        "fn({},[{}],{})",
        hex(name),
        f.arguments.iter().map(|a| hex(a)).collect::<Vec<_>>().join(","),
        cards_tok(&f.cards)
    )
}

pub fn module_tok(m: &Module) -> String {
    format!(
        "mod([{}],[{}],[{}])",
        m.imports.iter().map(|i| hex(i)).collect::<Vec<_>>().join(","),
        m.functions.iter().map(|(n, f)| func_tok(n, f)).collect::<Vec<_>>().join(","),
        m.submodules.iter().map(|(n, s)| format!("sub({},{})", hex(n), module_tok(s))).collect::<Vec<_>>().join(",")
    )
}

// ------------------------------------------------------------------------------------------
// parser

pub struct Parser<'a> {
    cs: &'a [u8],
    p: usize,
}

impl<'a> Parser<'a> {
    pub fn new(s: &'a str) -> Self {
        Parser { cs: s.as_bytes(), p: 0 }
    }
    fn peek(&self) -> Option<u8> {
        self.cs.get(self.p).copied()
    }
    fn expect(&mut self, c: u8) -> Option<()> {
        if self.peek() == Some(c) {
            self.p += 1;
            Some(())
        } else {
            None
        }
    }
    fn ident(&mut self) -> Option<String> {
        let s = self.p;
        while self.peek().map(|c| c.is_ascii_alphabetic()).unwrap_or(false) {
            self.p += 1;
        }
        if self.p == s {
            None
        } else {
            Some(String::from_utf8(self.cs[s..self.p].to_vec()).unwrap())
        }
    }
    fn hex_name(&mut self) -> Option<String> {
        self.expect(b'$')?;
        let s = self.p;
        while self.peek().map(|c| c.is_ascii_hexdigit()).unwrap_or(false) {
            self.p += 1;
        }
        let h = std::str::from_utf8(&self.cs[s..self.p]).ok()?;
        if h.len() % 2 != 0 {
            return None;
        }
        let bytes: Option<Vec<u8>> = (0..h.len() / 2).map(|i| u8::from_str_radix(&h[2 * i..2 * i + 2], 16).ok()).collect();
        String::from_utf8(bytes?).ok()
    }
    fn opt_name(&mut self) -> Option<Option<String>> {
        if self.peek() == Some(b'?') {
            self.p += 1;
            Some(None)
        } else {
            self.hex_name().map(Some)
        }
    }
    fn int_lit(&mut self) -> Option<i64> {
        self.expect(b'#')?;
        let s = self.p;
        while self.peek().map(|c| c.is_ascii_digit() || c == b'-').unwrap_or(false) {
            self.p += 1;
        }
        std::str::from_utf8(&self.cs[s..self.p]).ok()?.parse().ok()
    }
    fn list<T>(&mut self, mut f: impl FnMut(&mut Self) -> Option<T>) -> Option<Vec<T>> {
        self.expect(b'[')?;
        let mut v = vec![];
        if self.peek() == Some(b']') {
            self.p += 1;
            return Some(v);
        }
        loop {
            v.push(f(self)?);
            match self.peek()? {
                b',' => self.p += 1,
                b']' => {
                    self.p += 1;
                    return Some(v);
                }
                _ => return None,
            }
        }
    }
    pub fn card(&mut self) -> Option<Card> {
        let id = self.ident()?;
        let body = match id.as_str() {
            "nil" => return Some(CardBody::ScalarNil.into()),
            "table" => return Some(CardBody::CreateTable.into()),
            "abort" => return Some(CardBody::Abort.into()),
            _ => {
                self.expect(b'(')?;
                let b = self.body(&id)?;
                self.expect(b')')?;
                b
            }
        };
        Some(body.into())
    }
    fn two(&mut self) -> Option<Box<[Card; 2]>> {
        let a = self.card()?;
        self.expect(b',')?;
        let b = self.card()?;
        Some(Box::new([a, b]))
    }
    fn three(&mut self) -> Option<Box<[Card; 3]>> {
        let a = self.card()?;
        self.expect(b',')?;
        let b = self.card()?;
        self.expect(b',')?;
        let c = self.card()?;
        Some(Box::new([a, b, c]))
    }
    fn body(&mut self, id: &str) -> Option<CardBody> {
        Some(match id {
            "add" => CardBody::Add(self.two()?),
            "sub" => CardBody::Sub(self.two()?),
            "mul" => CardBody::Mul(self.two()?),
            "div" => CardBody::Div(self.two()?),
            "less" => CardBody::Less(self.two()?),
            "lesseq" => CardBody::LessOrEq(self.two()?),
            "eq" => CardBody::Equals(self.two()?),
            "neq" => CardBody::NotEquals(self.two()?),
            "and" => CardBody::And(self.two()?),
            "or" => CardBody::Or(self.two()?),
            "xor" => CardBody::Xor(self.two()?),
            "getprop" => CardBody::GetProperty(self.two()?),
            "iftrue" => CardBody::IfTrue(self.two()?),
            "iffalse" => CardBody::IfFalse(self.two()?),
            "while" => CardBody::While(self.two()?),
            "get" => CardBody::Get(self.two()?),
            "append" => CardBody::AppendTable(self.two()?),
            "not" => CardBody::Not(UnaryExpression::new(self.card()?)),
            "return" => CardBody::Return(UnaryExpression::new(self.card()?)),
            "len" => CardBody::Len(UnaryExpression::new(self.card()?)),
            "pop" => CardBody::PopTable(UnaryExpression::new(self.card()?)),
            "ifelse" => CardBody::IfElse(self.three()?),
            "setprop" => CardBody::SetProperty(self.three()?),
            "int" => CardBody::ScalarInt(self.int_lit()?),
            "float" => {
                self.expect(b'$')?;
                let h = std::str::from_utf8(self.cs.get(self.p..self.p + 16)?).ok()?;
                self.p += 16;
                CardBody::ScalarFloat(f64::from_bits(u64::from_str_radix(h, 16).ok()?))
            }
            "str" => CardBody::StringLiteral(self.hex_name()?),
            "comment" => CardBody::Comment(self.hex_name()?),
            "function" => CardBody::Function(self.hex_name()?),
            "nativefn" => CardBody::NativeFunction(self.hex_name()?),
            "readvar" => CardBody::ReadVar(self.hex_name()?),
            "setvar" => {
                let n = self.hex_name()?;
                self.expect(b',')?;
                CardBody::SetVar(Box::new(SetVar { name: n, value: self.card()? }))
            }
            "setglobal" => {
                let n = self.hex_name()?;
                self.expect(b',')?;
                CardBody::SetGlobalVar(Box::new(SetVar { name: n, value: self.card()? }))
            }
            "callnative" => {
                let n = self.hex_name()?;
                self.expect(b',')?;
                let a = self.list(|p| p.card())?;
                CardBody::CallNative(Box::new(CallNode { name: n, args: a.into() }))
            }
            "call" => {
                let n = self.hex_name()?;
                self.expect(b',')?;
                let a = self.list(|p| p.card())?;
                CardBody::Call(Box::new(StaticJump { function_name: n, args: a.into() }))
            }
            "repeat" => {
                let i = self.opt_name()?;
                self.expect(b',')?;
                let n = self.card()?;
                self.expect(b',')?;
                let body = self.card()?;
                CardBody::Repeat(Box::new(Repeat { i, n, body }))
            }
            "foreach" => {
                let i = self.opt_name()?;
                self.expect(b',')?;
                let k = self.opt_name()?;
                self.expect(b',')?;
                let v = self.opt_name()?;
                self.expect(b',')?;
                let it = self.card()?;
                self.expect(b',')?;
                let body = self.card()?;
                CardBody::ForEach(Box::new(ForEach { i, k, v, iterable: Box::new(it), body: Box::new(body) }))
            }
            "composite" => {
                let ty = self.hex_name()?;
                self.expect(b',')?;
                let cards = self.list(|p| p.card())?;
                CardBody::CompositeCard(Box::new(CompositeCard { ty, cards }))
            }
            "dyncall" => {
                let a = self.list(|p| p.card())?;
                self.expect(b',')?;
                let f = self.card()?;
                CardBody::DynamicCall(Box::new(DynamicJump { args: a.into(), function: f }))
            }
            "array" => CardBody::Array(self.list(|p| p.card())?),
            "closure" => {
                let args = self.list(|p| p.hex_name())?;
                self.expect(b',')?;
                let cards = self.list(|p| p.card())?;
                CardBody::Closure(Box::new(Function { arguments: args, cards }))
            }
            _ => return None,
        })
    }
    pub fn func(&mut self) -> Option<(String, Function)> {
        if self.ident()? != "fn" {
            return None;
        }
        self.expect(b'(')?;
        let n = self.hex_name()?;
        self.expect(b',')?;
        let args = self.list(|p| p.hex_name())?;
        self.expect(b',')?;
        let cards = self.list(|p| p.card())?;
        self.expect(b')')?;
        Some((n, Function { arguments: args, cards }))
    }
    pub fn module(&mut self) -> Option<Module> {
        if self.ident()? != "mod" {
            return None;
        }
        self.expect(b'(')?;
        let imports = self.list(|p| p.hex_name())?;
        self.expect(b',')?;
        let functions = self.list(|p| p.func())?;
        self.expect(b',')?;
        let submodules = self.list(|p| {
            if p.ident()? != "sub" {
                return None;
            }
            p.expect(b'(')?;
            let n = p.hex_name()?;
            p.expect(b',')?;
            let m = p.module()?;
            p.expect(b')')?;
            Some((n, m))
        })?;
        self.expect(b')')?;
        Some(Module { submodules, functions, imports })
    }
    pub fn done(&self) -> bool {
        self.p == self.cs.len()
    }
}

pub fn parse_card(s: &str) -> Option<Card> {
    let mut p = Parser::new(s);
    let c = p.card()?;
    if p.done() {
        Some(c)
    } else {
        None
    }
}

pub fn parse_module(s: &str) -> Option<Module> {
    let mut p = Parser::new(s);
    let m = p.module()?;
    if p.done() {
        Some(m)
    } else {
        None
    }
}

// ------------------------------------------------------------------------------------------
// generators (structure only; the semantic generators live with the compile/vm engines)

/// Generates a card of any kind with unique leaf contents (so cards are distinguishable by value).
pub struct CardGen {
    pub next: i64,
}

impl CardGen {
    pub fn leaf(&mut self, rng: &mut Rng) -> Card {
        self.next += 1;
        let n = self.next;
        match rng.below(9) {
            0 => CardBody::ScalarInt(n).into(),
            1 => CardBody::ScalarFloat(n as f64 + 0.5).into(),
            2 => CardBody::StringLiteral(format!("s{n}")).into(),
            3 => CardBody::Comment(format!("c{n}")).into(),
            4 => CardBody::ReadVar(format!("v{n}")).into(),
            5 => CardBody::Function(format!("f{n}")).into(),
            6 => CardBody::NativeFunction(format!("n{n}")).into(),
            7 => match rng.below(3) {
                0 => CardBody::ScalarNil.into(),
                1 => CardBody::CreateTable.into(),
                _ => CardBody::Abort.into(),
            },
            _ => CardBody::ScalarInt(-n).into(),
        }
    }

    pub fn list(&mut self, rng: &mut Rng, depth: usize, max: usize) -> Vec<Card> {
        let n = rng.below(max as u64 + 1) as usize;
        (0..n).map(|_| self.card(rng, depth)).collect()
    }

    pub fn card(&mut self, rng: &mut Rng, depth: usize) -> Card {
        if depth == 0 || rng.chance(1, 4) {
            return self.leaf(rng);
        }
        let d = depth - 1;
        self.next += 1;
        let n = self.next;
        let name = |p: &str| format!("{p}{n}");
        let two = |s: &mut Self, rng: &mut Rng| Box::new([s.card(rng, d), s.card(rng, d)]);
        match rng.below(36) {
            0 => CardBody::Add(two(self, rng)),
            1 => CardBody::Sub(two(self, rng)),
            2 => CardBody::Mul(two(self, rng)),
            3 => CardBody::Div(two(self, rng)),
            4 => CardBody::Less(two(self, rng)),
            5 => CardBody::LessOrEq(two(self, rng)),
            6 => CardBody::Equals(two(self, rng)),
            7 => CardBody::NotEquals(two(self, rng)),
            8 => CardBody::And(two(self, rng)),
            9 => CardBody::Or(two(self, rng)),
            10 => CardBody::Xor(two(self, rng)),
            11 => CardBody::GetProperty(two(self, rng)),
            12 => CardBody::IfTrue(two(self, rng)),
            13 => CardBody::IfFalse(two(self, rng)),
            14 => CardBody::While(two(self, rng)),
            15 => CardBody::Get(two(self, rng)),
            16 => CardBody::AppendTable(two(self, rng)),
            17 => CardBody::Not(UnaryExpression::new(self.card(rng, d))),
            18 => CardBody::Return(UnaryExpression::new(self.card(rng, d))),
            19 => CardBody::Len(UnaryExpression::new(self.card(rng, d))),
            20 => CardBody::PopTable(UnaryExpression::new(self.card(rng, d))),
            21 => CardBody::IfElse(Box::new([self.card(rng, d), self.card(rng, d), self.card(rng, d)])),
            22 => CardBody::SetProperty(Box::new([self.card(rng, d), self.card(rng, d), self.card(rng, d)])),
            23 => CardBody::SetVar(Box::new(SetVar { name: name("x"), value: self.card(rng, d) })),
            24 => CardBody::SetGlobalVar(Box::new(SetVar { name: name("g"), value: self.card(rng, d) })),
            25 => CardBody::CallNative(Box::new(CallNode { name: name("nat"), args: self.list(rng, d, 3).into() })),
            26 => CardBody::Call(Box::new(StaticJump { function_name: name("fun"), args: self.list(rng, d, 3).into() })),
            27 => CardBody::Repeat(Box::new(Repeat {
                i: if rng.chance(1, 2) { Some(name("i")) } else { None },
                n: self.card(rng, d),
                body: self.card(rng, d),
            })),
            28 => CardBody::ForEach(Box::new(ForEach {
                i: if rng.chance(1, 2) { Some(name("i")) } else { None },
                k: if rng.chance(1, 2) { Some(name("k")) } else { None },
                v: if rng.chance(1, 2) { Some(name("v")) } else { None },
                iterable: Box::new(self.card(rng, d)),
                body: Box::new(self.card(rng, d)),
            })),
            29 | 30 => CardBody::CompositeCard(Box::new(CompositeCard { ty: name("ty"), cards: self.list(rng, d, 3) })),
            31 => CardBody::DynamicCall(Box::new(DynamicJump { args: self.list(rng, d, 3).into(), function: self.card(rng, d) })),
            32 | 33 => CardBody::Array(self.list(rng, d, 3)),
            _ => CardBody::Closure(Box::new(Function {
                arguments: (0..rng.below(3)).map(|i| format!("a{n}_{i}")).collect(),
                cards: self.list(rng, d, 3),
            })),
        }
        .into()
    }
}

// ------------------------------------------------------------------------------------------
// Lean term printer (for Generated/Stdlib.lean)

fn lean_str(s: &str) -> String {
    format!("{:?}", s)
}

fn lean_opt(s: &Option<String>) -> String {
    match s {
        None => "none".into(),
        Some(s) => format!("(some {})", lean_str(s)),
    }
}

fn lean_cards(cs: &[Card]) -> String {
    format!("[{}]", cs.iter().map(lean_card).collect::<Vec<_>>().join(", "))
}

pub fn lean_card(c: &Card) -> String {
    let b2 = |k: &str, e: &[Card; 2]| format!("(Card.bin .{k} {} {})", lean_card(&e[0]), lean_card(&e[1]));
    let u1 = |k: &str, e: &UnaryExpression| format!("(Card.un .{k} {})", lean_card(&e.card));
    match &c.body {
        CardBody::Add(e) => b2("add", e),
        CardBody::Sub(e) => b2("sub", e),
        CardBody::Mul(e) => b2("mul", e),
        CardBody::Div(e) => b2("div", e),
        CardBody::Less(e) => b2("less", e),
        CardBody::LessOrEq(e) => b2("lessOrEq", e),
        CardBody::Equals(e) => b2("equals", e),
        CardBody::NotEquals(e) => b2("notEquals", e),
        CardBody::And(e) => b2("and", e),
        CardBody::Or(e) => b2("or", e),
        CardBody::Xor(e) => b2("xor", e),
        CardBody::GetProperty(e) => b2("getProperty", e),
        CardBody::IfTrue(e) => b2("ifTrue", e),
        CardBody::IfFalse(e) => b2("ifFalse", e),
        CardBody::While(e) => b2("while", e),
        CardBody::Get(e) => b2("get", e),
        CardBody::AppendTable(e) => b2("appendTable", e),
        CardBody::Not(e) => u1("not", e),
        CardBody::Return(e) => u1("ret", e),
        CardBody::Len(e) => u1("len", e),
        CardBody::PopTable(e) => u1("popTable", e),
        CardBody::IfElse(e) => format!("(Card.tri .ifElse {} {} {})", lean_card(&e[0]), lean_card(&e[1]), lean_card(&e[2])),
        CardBody::SetProperty(e) => format!("(Card.tri .setProperty {} {} {})", lean_card(&e[0]), lean_card(&e[1]), lean_card(&e[2])),
        CardBody::ScalarNil => "Card.scalarNil".into(),
        CardBody::CreateTable => "Card.createTable".into(),
        CardBody::Abort => "Card.abort".into(),
        CardBody::ScalarInt(i) => format!("(Card.scalarInt ({i}))"),
        CardBody::ScalarFloat(f) => format!("(Card.scalarFloat {})", f.to_bits()),
        CardBody::StringLiteral(s) => format!("(Card.stringLiteral {})", lean_str(s)),
        CardBody::Comment(s) => format!("(Card.comment {})", lean_str(s)),
        CardBody::Function(s) => format!("(Card.function {})", lean_str(s)),
        CardBody::NativeFunction(s) => format!("(Card.nativeFunction {})", lean_str(s)),
        CardBody::ReadVar(s) => format!("(Card.readVar {})", lean_str(s)),
        CardBody::SetVar(s) => format!("(Card.setVar {} {})", lean_str(&s.name), lean_card(&s.value)),
        CardBody::SetGlobalVar(s) => format!("(Card.setGlobalVar {} {})", lean_str(&s.name), lean_card(&s.value)),
        CardBody::CallNative(c) => format!("(Card.callNative {} {})", lean_str(&c.name), lean_cards(&c.args.0)),
        CardBody::Call(c) => format!("(Card.call {} {})", lean_str(&c.function_name), lean_cards(&c.args.0)),
        CardBody::Repeat(r) => format!("(Card.repeat {} {} {})", lean_opt(&r.i), lean_card(&r.n), lean_card(&r.body)),
        CardBody::ForEach(f) => format!(
            "(Card.forEach {} {} {} {} {})",
            lean_opt(&f.i),
            lean_opt(&f.k),
            lean_opt(&f.v),
            lean_card(&f.iterable),
            lean_card(&f.body)
        ),
        CardBody::CompositeCard(c) => format!("(Card.composite {} {})", lean_str(&c.ty), lean_cards(&c.cards)),
        CardBody::DynamicCall(d) => format!("(Card.dynamicCall {} {})", lean_cards(&d.args.0), lean_card(&d.function)),
        CardBody::Array(a) => format!("(Card.array {})", lean_cards(a)),
        CardBody::Closure(f) => format!(
            "(Card.closure [{}] {})",
            f.arguments.iter().map(|a| lean_str(a)).collect::<Vec<_>>().join(", "),
            lean_cards(&f.cards)
        ),
    }
}

pub fn lean_module(m: &Module) -> String {
    let fns: Vec<String> = m
        .functions
        .iter()
        .map(|(n, f)| {
            format!(
                "    ({}, {{ arguments := [{}], cards := [\n      {}] }})",
                lean_str(n),
                f.arguments.iter().map(|a| lean_str(a)).collect::<Vec<_>>().join(", "),
                f.cards.iter().map(lean_card).collect::<Vec<_>>().join(",\n      ")
            )
        })
        .collect();
    let subs: Vec<String> = m.submodules.iter().map(|(n, s)| format!("({}, {})", lean_str(n), lean_module(s))).collect();
    format!(
        "(Module.mk [{}] [\n{}] [{}])",
        subs.join(", "),
        fns.join(",\n"),
        m.imports.iter().map(|i| lean_str(i)).collect::<Vec<_>>().join(", ")
    )
}
