//! Differential-testing framework shared by all engines.
//!
//! For every case (a list of op lines) three output streams are produced:
//!   * IMPL  — the real crate, run in a child worker process (so that a panic, abort, native
//!             stack overflow or hang is an observation, not the end of the run);
//!   * MODEL — the compiled Lean driver (`caodriver`) fed the same lines;
//!   * SPEC  — the reference oracle written in the harness (may answer `?` = unspecified).
//! IMPL≠SPEC is an implementation-vs-oracle failure (a property violation candidate);
//! IMPL≠MODEL is a correspondence failure. They are reported separately.

use crate::rng::Rng;
use std::collections::BTreeMap;
use std::io::{BufRead, BufReader, Write};
use std::process::{Child, Command, Stdio};
use std::sync::mpsc::{channel, Receiver};
use std::time::Duration;

#[derive(Clone, Copy, PartialEq, Eq, Debug)]
pub enum Tier {
    Quick,
    Thorough,
}

pub trait Engine: Sync {
    fn name(&self) -> &'static str;
    /// Generate the op lines of case number `idx` (all randomness from `rng`).
    fn gen(&self, rng: &mut Rng, tier: Tier, idx: usize) -> Vec<String>;
    /// Run the real crate; push exactly one output line per op (runs inside the worker).
    fn run_impl(&self, ops: &[String], out: &mut Vec<String>);
    /// Reference oracle; one line per op, `?` where the spec leaves the answer open.
    /// `None` = this engine has no separate oracle (model is the only comparison).
    /// `impl_out` may be consulted only to resolve choices the property leaves to the
    /// implementation (e.g. whether an operation allocated and therefore saw the scripted fault).
    fn run_spec(&self, _ops: &[String], _impl_out: &[String]) -> Option<Vec<String>> {
        None
    }
    /// Coverage tags of a case (for the histogram and the non-triviality rule).
    fn tags(&self, ops: &[String], impl_out: &[String]) -> Vec<String>;
    /// Regression corpus (minimised past failures and hand-written edge cases), run first.
    fn corpus(&self) -> Vec<Vec<String>> {
        vec![]
    }
    /// Is the case non-trivial by this engine's rule?
    fn nontrivial(&self, ops: &[String], _impl_out: &[String]) -> bool {
        ops.len() >= 3
    }
    /// Lines whose MODEL output should not be compared (e.g. engine has no model for them).
    fn model_compared(&self, _op: &str) -> bool {
        true
    }
    /// Custom equivalence between the implementation's and the driver's answer (default: equal).
    fn model_equiv(&self, _op: &str, impl_line: &str, model_line: &str) -> bool {
        impl_line == model_line
    }
    /// Per-case timeout for the implementation worker.
    fn timeout(&self) -> Duration {
        Duration::from_secs(10)
    }
    /// Number of leading ops that must be kept when shrinking (constructor lines).
    fn shrink_keep_prefix(&self, _ops: &[String]) -> usize {
        1
    }
    /// Exhaustive enumeration for the thorough tier (optional).
    fn exhaustive(&self, _tier: Tier) -> Vec<Vec<String>> {
        vec![]
    }
}

// ------------------------------------------------------------------------------------------
// worker side

pub fn worker_main(engine: &dyn Engine) {
    std::panic::set_hook(Box::new(|_| {}));
    let stdin = std::io::stdin();
    let stdout = std::io::stdout();
    let mut ops: Vec<String> = vec![];
    let mut in_case = false;
    for line in stdin.lock().lines() {
        let line = line.unwrap();
        if line == "#case" {
            ops.clear();
            in_case = true;
        } else if line == "#end" {
            in_case = false;
            let out = run_impl_caught(engine, &ops);
            let mut o = stdout.lock();
            for l in out {
                writeln!(o, "{}", l).unwrap();
            }
            writeln!(o, "#done").unwrap();
            o.flush().unwrap();
        } else if in_case {
            ops.push(line);
        }
    }
}

pub fn run_impl_caught(engine: &dyn Engine, ops: &[String]) -> Vec<String> {
    let out = std::sync::Mutex::new(Vec::new());
    let res = std::panic::catch_unwind(std::panic::AssertUnwindSafe(|| {
        let mut o = out.lock().unwrap();
        engine.run_impl(ops, &mut o);
    }));
    let mut out = match out.into_inner() {
        Ok(v) => v,
        Err(p) => p.into_inner(),
    };
    if res.is_err() {
        while out.len() < ops.len() {
            out.push("panic".into());
        }
    }
    out.truncate(ops.len().max(out.len()));
    out
}

// ------------------------------------------------------------------------------------------
// parent side: worker pool

struct Worker {
    child: Child,
    rx: Receiver<String>,
}

impl Worker {
    fn spawn(engine: &str) -> Worker {
        let exe = std::env::current_exe().unwrap();
        let mut child = Command::new(exe)
            .arg("worker")
            .arg(engine)
            .stdin(Stdio::piped())
            .stdout(Stdio::piped())
            .stderr(Stdio::null())
            .spawn()
            .expect("spawn worker");
        let stdout = child.stdout.take().unwrap();
        let (tx, rx) = channel();
        std::thread::spawn(move || {
            for l in BufReader::new(stdout).lines() {
                match l {
                    Ok(l) => {
                        if tx.send(l).is_err() {
                            break;
                        }
                    }
                    Err(_) => break,
                }
            }
        });
        Worker { child, rx }
    }

    /// Returns outputs; on crash/hang pads with `crash` / `hang` and reports need-restart.
    fn run_case(&mut self, ops: &[String], timeout: Duration) -> (Vec<String>, bool) {
        let mut msg = String::from("#case\n");
        for o in ops {
            msg.push_str(o);
            msg.push('\n');
        }
        msg.push_str("#end\n");
        let stdin = self.child.stdin.as_mut().unwrap();
        let write_ok = stdin.write_all(msg.as_bytes()).is_ok() && stdin.flush().is_ok();
        let mut out = vec![];
        if write_ok {
            loop {
                match self.rx.recv_timeout(timeout) {
                    Ok(l) => {
                        if l == "#done" {
                            return (out, false);
                        }
                        out.push(l);
                    }
                    Err(std::sync::mpsc::RecvTimeoutError::Timeout) => {
                        let _ = self.child.kill();
                        let _ = self.child.wait();
                        while out.len() < ops.len() {
                            out.push("hang".into());
                        }
                        return (out, true);
                    }
                    Err(_) => break,
                }
            }
        }
        let _ = self.child.kill();
        let _ = self.child.wait();
        while out.len() < ops.len() {
            out.push("crash".into());
        }
        (out, true)
    }
}

impl Drop for Worker {
    fn drop(&mut self) {
        let _ = self.child.kill();
        let _ = self.child.wait();
    }
}

/// Runs the cases in a worker process. After `MAX_RESTARTS` crashes/hangs the remaining cases
/// are not run (their output is a single `skipped` line) so that a tree on which most cases
/// hang still yields a verdict in bounded time.
pub const MAX_RESTARTS: usize = 4;

pub fn run_impl_isolated(engine: &dyn Engine, cases: &[Vec<String>]) -> Vec<Vec<String>> {
    let mut w = Worker::spawn(engine.name());
    let mut res = Vec::with_capacity(cases.len());
    let mut restarts = 0;
    for c in cases {
        if restarts >= MAX_RESTARTS {
            res.push(vec!["skipped".to_string()]);
            continue;
        }
        let (out, restart) = w.run_case(c, engine.timeout());
        res.push(out);
        if restart {
            restarts += 1;
            w = Worker::spawn(engine.name());
        }
    }
    res
}

/// Run the Lean driver over a batch of cases (one process).
pub fn run_model(driver: &str, cases: &[Vec<String>]) -> Vec<Vec<String>> {
    // a model that does not answer a line within the time limit is killed; the case gets
    // `model-timeout` lines (not compared, counted in the tags) and a fresh driver takes over
    // with the next case (every case starts from its own constructor line)
    let mut res: Vec<Vec<String>> = Vec::with_capacity(cases.len());
    let mut start = 0;
    let mut restarts = 0;
    while start < cases.len() {
        let (done, timed_out) = run_model_from(driver, &cases[start..]);
        let n = done.len();
        res.extend(done);
        start += n;
        if timed_out {
            restarts += 1;
            if restarts > 20 {
                break;
            }
        }
    }
    while res.len() < cases.len() {
        res.push(cases[res.len()].iter().map(|_| "model-timeout".to_string()).collect());
    }
    res
}

/// runs the cases on one driver process; returns the outputs of the cases it got through (the last
/// of them padded with `model-timeout` when the driver had to be killed) and whether it was killed
fn run_model_from(driver: &str, cases: &[Vec<String>]) -> (Vec<Vec<String>>, bool) {
    let mut child = Command::new(driver)
        .stdin(Stdio::piped())
        .stdout(Stdio::piped())
        .stderr(Stdio::null())
        .spawn()
        .unwrap_or_else(|e| panic!("cannot start model driver {driver}: {e}"));
    let mut stdin = child.stdin.take().unwrap();
    let payload: String = cases
        .iter()
        .flat_map(|c| c.iter())
        .map(|l| format!("{l}\n"))
        .collect();
    let writer = std::thread::spawn(move || {
        let _ = stdin.write_all(payload.as_bytes());
    });
    let stdout = child.stdout.take().unwrap();
    let (tx, rx) = channel::<String>();
    std::thread::spawn(move || {
        for l in BufReader::new(stdout).lines() {
            match l {
                Ok(l) => {
                    if tx.send(l).is_err() {
                        break;
                    }
                }
                Err(_) => break,
            }
        }
    });
    let per_line = Duration::from_secs(20);
    let mut res = Vec::with_capacity(cases.len());
    let mut killed = false;
    'cases: for c in cases {
        let mut out = Vec::with_capacity(c.len());
        for _ in 0..c.len() {
            match rx.recv_timeout(per_line) {
                Ok(l) => out.push(l),
                Err(_) => {
                    killed = true;
                    let _ = child.kill();
                    while out.len() < c.len() {
                        out.push("model-timeout".into());
                    }
                    res.push(out);
                    break 'cases;
                }
            }
        }
        res.push(out);
    }
    let _ = child.kill();
    let _ = writer.join();
    let _ = child.wait();
    (res, killed)
}

// ------------------------------------------------------------------------------------------
// comparison, shrinking, reporting

#[derive(Clone, Debug)]
pub struct Failure {
    pub kind: &'static str, // "impl-vs-spec" | "model-vs-impl"
    pub case_index: usize,
    pub seed: u64,
    pub ops: Vec<String>,
    pub first_line: usize,
    pub impl_out: Vec<String>,
    pub other_out: Vec<String>,
}

fn first_diff(
    engine: &dyn Engine,
    ops: &[String],
    a: &[String],
    b: &[String],
    is_model: bool,
) -> Option<usize> {
    for i in 0..ops.len() {
        let x = a.get(i).map(|s| s.as_str()).unwrap_or("<missing>");
        let y = b.get(i).map(|s| s.as_str()).unwrap_or("<missing>");
        if y == "?" {
            continue;
        }
        if y == "?err" && !is_model {
            if x.starts_with("err:") {
                continue;
            }
            return Some(i);
        }
        // `pcall` (a host function that swallows its callee's error) exists in the implementation
        // and in the reference semantics (engine `sem`) only, not in the VM model: see VmEngine
        // (the model's state is off from that line on: the rest of the case is not compared either)
        // (`typed3`, $747970656433, is a harness-only host function as well: its conversion messages
        // are checked by the nat engine's oracle; so is `reguard`, $72656775617264: the mem engine's
        // bounded-live-data oracle decides what it leaves behind)
        let uses_pcall = engine.name() != "sem" && ops[..=i].iter().any(|o| o.contains("$7063616c6c") || o.contains("$747970656433") || o.contains("$72656775617264") || o.contains("$6767686f73746b6579"));
        if is_model && (!engine.model_compared(&ops[i]) || y == "model-timeout" || uses_pcall) {
            continue;
        }
        if is_model {
            if !engine.model_equiv(&ops[i], x, y) {
                return Some(i);
            }
            continue;
        }
        if x != y {
            return Some(i);
        }
    }
    None
}

/// ddmin-style shrinking: remove chunks of ops while the predicate still fails.
pub fn shrink(
    ops: &[String],
    keep: usize,
    mut still_fails: impl FnMut(&[String]) -> bool,
) -> Vec<String> {
    let mut cur: Vec<String> = ops.to_vec();
    let mut chunk = (cur.len().saturating_sub(keep) / 2).max(1);
    let mut budget = 400usize;
    let t0 = std::time::Instant::now();
    loop {
        let mut progressed = false;
        let mut i = keep;
        while i < cur.len() && budget > 0 {
            if t0.elapsed().as_secs() >= 20 {
                budget = 0;
                break;
            }
            let end = (i + chunk).min(cur.len());
            let mut cand = cur[..i].to_vec();
            cand.extend_from_slice(&cur[end..]);
            budget -= 1;
            if cand.len() >= keep && still_fails(&cand) {
                cur = cand;
                progressed = true;
            } else {
                i += chunk;
            }
        }
        if budget == 0 {
            break;
        }
        if chunk == 1 && !progressed {
            break;
        }
        if !progressed {
            chunk = (chunk / 2).max(1);
        }
    }
    cur
}

pub struct RunConfig {
    pub seed: u64,
    pub tier: Tier,
    pub cases: usize,
    pub driver: Option<String>,
    pub replay_dir: String,
    pub label: String,
}

pub struct RunSummary {
    pub engine: String,
    pub evaluations: usize,
    pub ops_total: usize,
    pub distinct_nontrivial: usize,
    pub corpus_cases: usize,
    pub exhaustive_cases: usize,
    pub model_lines_compared: usize,
    pub spec_lines_compared: usize,
    pub tags: BTreeMap<String, usize>,
    pub samples: Vec<Vec<String>>,
    pub spec_failures: Vec<(Failure, String)>,  // with replay path
    pub model_failures: Vec<(Failure, String)>, // with replay path
}

pub fn case_seed(seed: u64, engine: &str, idx: usize) -> u64 {
    let mut h = Rng::new(seed ^ 0xC0FFEE);
    for b in engine.bytes() {
        h.0 = h.0.wrapping_mul(31).wrapping_add(b as u64);
    }
    h.0 = h.0.wrapping_add((idx as u64).wrapping_mul(0x9E3779B97F4A7C15));
    h.next()
}

pub fn write_replay(
    dir: &str,
    label: &str,
    engine: &str,
    f: &Failure,
    n: usize,
) -> String {
    let _ = std::fs::create_dir_all(dir);
    let path = format!("{dir}/{label}-{engine}-{}-{n}.replay", f.kind);
    let mut s = String::new();
    s.push_str(&format!("# engine={engine} kind={} case_seed={} first_diverging_line={}\n", f.kind, f.seed, f.first_line));
    s.push_str("# ops (replay with: harness replay <engine> <this file> --driver <caodriver>)\n");
    for o in &f.ops {
        s.push_str(o);
        s.push('\n');
    }
    s.push_str("# --- outputs at first diverging line ---\n");
    s.push_str(&format!("# op:    {}\n", f.ops.get(f.first_line).cloned().unwrap_or_default()));
    s.push_str(&format!("# impl:  {}\n", f.impl_out.get(f.first_line).cloned().unwrap_or_default()));
    s.push_str(&format!("# {}: {}\n", if f.kind == "impl-vs-spec" { "spec " } else { "model" }, f.other_out.get(f.first_line).cloned().unwrap_or_default()));
    std::fs::write(&path, s).unwrap();
    path
}

pub fn read_replay(path: &str) -> Vec<String> {
    std::fs::read_to_string(path)
        .unwrap_or_else(|e| panic!("cannot read replay {path}: {e}"))
        .lines()
        .filter(|l| !l.starts_with('#') && !l.trim().is_empty())
        .map(|l| l.to_string())
        .collect()
}

pub fn run_engine(engine: &dyn Engine, cfg: &RunConfig) -> RunSummary {
    let mut cases: Vec<Vec<String>> = vec![];
    let mut seeds: Vec<u64> = vec![];
    let corpus = engine.corpus();
    let corpus_cases = corpus.len();
    for c in corpus {
        cases.push(c);
        seeds.push(0);
    }
    let ex = engine.exhaustive(cfg.tier);
    let exhaustive_cases = ex.len();
    for c in ex {
        cases.push(c);
        seeds.push(0);
    }
    for i in 0..cfg.cases {
        let s = case_seed(cfg.seed, engine.name(), i);
        let mut rng = Rng::new(s);
        cases.push(engine.gen(&mut rng, cfg.tier, i));
        seeds.push(s);
    }

    let impl_out = run_impl_isolated(engine, &cases);
    let model_out = cfg.driver.as_ref().map(|d| run_model(d, &cases));

    let mut tags: BTreeMap<String, usize> = BTreeMap::new();
    let mut distinct = std::collections::HashSet::new();
    let mut spec_failures = vec![];
    let mut model_failures = vec![];
    let mut ops_total = 0;
    let mut model_lines = 0;
    let mut spec_lines = 0;
    let mut samples = vec![];

    for (i, ops) in cases.iter().enumerate() {
        if impl_out[i].len() == 1 && impl_out[i][0] == "skipped" && ops.len() != 1 {
            *tags.entry("skipped-after-crashes".to_string()).or_insert(0) += 1;
            continue;
        }
        ops_total += ops.len();
        for t in engine.tags(ops, &impl_out[i]) {
            *tags.entry(t).or_insert(0) += 1;
        }
        if engine.nontrivial(ops, &impl_out[i]) {
            distinct.insert(ops.join("\n"));
        }
        if samples.len() < 3 && i >= corpus_cases + exhaustive_cases {
            let mut s: Vec<String> = ops.iter().take(12).cloned().collect();
            if ops.len() > 12 {
                s.push(format!("... ({} ops)", ops.len()));
            }
            samples.push(s);
        }
        // oracle
        if let Some(spec) = engine.run_spec(ops, &impl_out[i]) {
            spec_lines += spec.iter().filter(|l| l.as_str() != "?").count();
            if let Some(k) = first_diff(engine, ops, &impl_out[i], &spec, false) {
                if spec_failures.len() < 3 {
                    let keep = engine.shrink_keep_prefix(ops);
                    let shr = shrink(ops, keep, |cand| {
                        let io = run_impl_isolated(engine, &[cand.to_vec()]).pop().unwrap();
                        match engine.run_spec(cand, &io) {
                            Some(sp) => first_diff(engine, cand, &io, &sp, false).is_some(),
                            None => false,
                        }
                    });
                    let io = run_impl_isolated(engine, &[shr.clone()]).pop().unwrap();
                    let sp = engine.run_spec(&shr, &io).unwrap();
                    let k2 = first_diff(engine, &shr, &io, &sp, false).unwrap_or(k.min(shr.len().saturating_sub(1)));
                    let f = Failure {
                        kind: "impl-vs-spec",
                        case_index: i,
                        seed: seeds[i],
                        ops: shr,
                        first_line: k2,
                        impl_out: io,
                        other_out: sp,
                    };
                    let p = write_replay(&cfg.replay_dir, &cfg.label, engine.name(), &f, spec_failures.len());
                    spec_failures.push((f, p));
                } else {
                    let f = Failure {
                        kind: "impl-vs-spec",
                        case_index: i,
                        seed: seeds[i],
                        ops: ops.clone(),
                        first_line: k,
                        impl_out: impl_out[i].clone(),
                        other_out: spec,
                    };
                    spec_failures.push((f, String::new()));
                }
            }
        }
        // model
        if let Some(mo) = &model_out {
            if mo[i].iter().any(|l| l == "model-timeout") {
                *tags.entry("model-timeout".to_string()).or_insert(0) += 1;
            }
            model_lines += ops.iter().zip(mo[i].iter()).filter(|(o, m)| engine.model_compared(o) && m.as_str() != "model-timeout").count();
            if let Some(k) = first_diff(engine, ops, &impl_out[i], &mo[i], true) {
                if model_failures.len() < 3 {
                    let drv = cfg.driver.clone().unwrap();
                    let keep = engine.shrink_keep_prefix(ops);
                    let shr = shrink(ops, keep, |cand| {
                        let io = run_impl_isolated(engine, &[cand.to_vec()]).pop().unwrap();
                        let m = run_model(&drv, &[cand.to_vec()]).pop().unwrap();
                        first_diff(engine, cand, &io, &m, true).is_some()
                    });
                    let io = run_impl_isolated(engine, &[shr.clone()]).pop().unwrap();
                    let m = run_model(&drv, &[shr.clone()]).pop().unwrap();
                    let k2 = first_diff(engine, &shr, &io, &m, true).unwrap_or(k.min(shr.len().saturating_sub(1)));
                    let f = Failure {
                        kind: "model-vs-impl",
                        case_index: i,
                        seed: seeds[i],
                        ops: shr,
                        first_line: k2,
                        impl_out: io,
                        other_out: m,
                    };
                    let p = write_replay(&cfg.replay_dir, &cfg.label, engine.name(), &f, model_failures.len());
                    model_failures.push((f, p));
                } else {
                    let f = Failure {
                        kind: "model-vs-impl",
                        case_index: i,
                        seed: seeds[i],
                        ops: ops.clone(),
                        first_line: k,
                        impl_out: impl_out[i].clone(),
                        other_out: mo[i].clone(),
                    };
                    model_failures.push((f, String::new()));
                }
            }
        }
    }

    RunSummary {
        engine: engine.name().to_string(),
        evaluations: cases.len(),
        ops_total,
        distinct_nontrivial: distinct.len(),
        corpus_cases,
        exhaustive_cases,
        model_lines_compared: model_lines,
        spec_lines_compared: spec_lines,
        tags,
        samples,
        spec_failures,
        model_failures,
    }
}

pub fn summary_json(s: &RunSummary) -> serde_json::Value {
    let fail = |v: &Vec<(Failure, String)>| -> Vec<serde_json::Value> {
        v.iter()
            .map(|(f, p)| {
                serde_json::json!({
                    "kind": f.kind,
                    "case_index": f.case_index,
                    "case_seed": f.seed,
                    "replay": p,
                    "ops": f.ops,
                    "first_line": f.first_line,
                    "op": f.ops.get(f.first_line),
                    "impl": f.impl_out.get(f.first_line),
                    "other": f.other_out.get(f.first_line),
                })
            })
            .collect()
    };
    serde_json::json!({
        "engine": s.engine,
        "evaluations": s.evaluations,
        "ops_total": s.ops_total,
        "distinct_nontrivial": s.distinct_nontrivial,
        "corpus_cases": s.corpus_cases,
        "exhaustive_cases": s.exhaustive_cases,
        "model_lines_compared": s.model_lines_compared,
        "spec_lines_compared": s.spec_lines_compared,
        "tags": s.tags,
        "samples": s.samples,
        "spec_failures": fail(&s.spec_failures),
        "model_failures": fail(&s.model_failures),
    })
}
